package instr

import (
	"go/token"
	"go/types"
)

// typeExpr renders t as a type expression that is valid at position pos of the
// file: packages are referred to by the name under which the file imports them,
// and every name must resolve, at pos, to the object it denotes in t. used holds
// the identifiers the expression depends on (so that the caller can tell whether
// a declaration that follows pos would capture one of them).
func (fc *fileCtx) typeExpr(t types.Type, pos token.Pos) (s string, used map[string]bool, err error) {
	scope := fc.pkg.Types.Scope().Innermost(pos)
	if scope == nil {
		scope = fc.pkg.Types.Scope()
	}
	fail := func(format string, args ...interface{}) {
		if err == nil {
			err = fc.unsupported(pos, "cannot spell type %s here: "+format, append([]interface{}{t}, args...)...)
		}
	}
	used = map[string]bool{}
	resolves := func(name string, want func(types.Object) bool) {
		used[name] = true
		if _, obj := scope.LookupParent(name, pos); obj == nil || !want(obj) {
			fail("%s does not denote the required object at this position", name)
		}
	}
	checkObj := func(obj *types.TypeName) {
		switch pkg := obj.Pkg(); {
		case pkg == nil: // universe: error, any, comparable
			if obj.Name() == "any" && fc.goMinor < 18 {
				fail("predeclared any requires go1.18")
			}
			resolves(obj.Name(), func(o types.Object) bool { return o == types.Universe.Lookup(obj.Name()) })
		case pkg == fc.pkg.Types:
			resolves(obj.Name(), func(o types.Object) bool { return o == obj })
		case !obj.Exported():
			fail("%s.%s is not exported", pkg.Path(), obj.Name())
		default:
			name, ok := fc.imports[pkg.Path()]
			if !ok {
				fail("package %s is not imported by the file", pkg.Path())
				return
			}
			resolves(name, func(o types.Object) bool {
				pn, ok := o.(*types.PkgName)
				return ok && pn.Imported() == pkg
			})
		}
	}
	seen := map[types.Type]bool{}
	var walk func(t types.Type)
	walk = func(t types.Type) {
		if t == nil || seen[t] {
			return
		}
		seen[t] = true
		switch t := t.(type) {
		case *types.Basic:
			switch {
			case t.Kind() == types.UnsafePointer:
				if fc.imports["unsafe"] != "unsafe" {
					fail("package unsafe is not imported under its own name")
				}
				resolves("unsafe", func(o types.Object) bool { _, ok := o.(*types.PkgName); return ok })
			case t.Kind() == types.Invalid || t.Info()&types.IsUntyped != 0:
				fail("invalid or untyped")
			default:
				resolves(t.Name(), func(o types.Object) bool { return o == types.Universe.Lookup(t.Name()) })
			}
		case *types.Named:
			checkObj(t.Obj())
			for i := 0; i < t.TypeArgs().Len(); i++ {
				walk(t.TypeArgs().At(i))
			}
		case *types.Alias:
			checkObj(t.Obj())
			for i := 0; i < t.TypeArgs().Len(); i++ {
				walk(t.TypeArgs().At(i))
			}
		case *types.TypeParam:
			resolves(t.Obj().Name(), func(o types.Object) bool { return o == t.Obj() })
		case *types.Pointer:
			walk(t.Elem())
		case *types.Slice:
			walk(t.Elem())
		case *types.Array:
			walk(t.Elem())
		case *types.Chan:
			walk(t.Elem())
		case *types.Map:
			walk(t.Key())
			walk(t.Elem())
		case *types.Tuple:
			for i := 0; i < t.Len(); i++ {
				walk(t.At(i).Type())
			}
		case *types.Signature:
			walk(t.Params())
			walk(t.Results())
		case *types.Struct:
			for i := 0; i < t.NumFields(); i++ {
				if f := t.Field(i); !f.Exported() && f.Pkg() != fc.pkg.Types {
					fail("struct with unexported field of another package")
				} else {
					walk(f.Type())
				}
			}
		case *types.Interface:
			for i := 0; i < t.NumExplicitMethods(); i++ {
				if m := t.ExplicitMethod(i); !m.Exported() && m.Pkg() != fc.pkg.Types {
					fail("interface with unexported method of another package")
				} else {
					walk(m.Type())
				}
			}
			for i := 0; i < t.NumEmbeddeds(); i++ {
				walk(t.EmbeddedType(i))
			}
		case *types.Union:
			for i := 0; i < t.Len(); i++ {
				walk(t.Term(i).Type())
			}
		default:
			fail("unexpected type node %T", t)
		}
	}
	walk(t)
	s = types.TypeString(t, func(p *types.Package) string {
		if p == fc.pkg.Types {
			return ""
		}
		if name, ok := fc.imports[p.Path()]; ok {
			return name
		}
		return p.Name()
	})
	return s, used, err
}
