package instr

import (
	"bytes"
	"errors"
	"fmt"
	"os"
	"os/exec"
	"path/filepath"
	"strings"
	"testing"
	"time"
)

const repoDir = "/repo"

func goEnv(extra ...string) []string {
	return append(append(os.Environ(), "GOFLAGS=-mod=mod", "GOPROXY=off", "GOSUMDB=off", "GOTOOLCHAIN=local"), extra...)
}

// run executes a command in dir and returns stdout, stderr and the error.
func run(dir string, env []string, name string, args ...string) (string, string, error) {
	cmd := exec.Command(name, args...)
	cmd.Dir, cmd.Env = dir, env
	var so, se bytes.Buffer
	cmd.Stdout, cmd.Stderr = &so, &se
	err := cmd.Run()
	return so.String(), se.String(), err
}

func mustRun(t *testing.T, dir string, env []string, name string, args ...string) string {
	t.Helper()
	so, se, err := run(dir, env, name, args...)
	if err != nil {
		t.Fatalf("%s %s in %s: %v\n%s\n%s", name, strings.Join(args, " "), dir, err, so, se)
	}
	return so
}

func writeFiles(t *testing.T, dir string, files map[string]string) {
	t.Helper()
	for name, src := range files {
		p := filepath.Join(dir, name)
		if err := os.MkdirAll(filepath.Dir(p), 0o755); err != nil {
			t.Fatal(err)
		}
		if err := os.WriteFile(p, []byte(src), 0o644); err != nil {
			t.Fatal(err)
		}
	}
}

// orderTestSrc is dropped into every package of the instrumented repository
// copy that has tests; ZZ_ORDER selects how map keys are enumerated.
const orderTestSrc = `package %s

import (
	"os"

	"%s/zzsimhook"
)

func init() {
	switch os.Getenv("ZZ_ORDER") {
	case "reverse":
		zzsimhook.OnKeys = func(site string, n int) []int {
			p := make([]int, n)
			for i := range p {
				p[i] = n - 1 - i
			}
			return p
		}
	case "lcg": // Fisher-Yates driven by a linear congruential generator
		state := uint64(12345)
		zzsimhook.OnKeys = func(site string, n int) []int {
			for _, c := range []byte(site) {
				state = state*6364136223846793005 + uint64(c) + 1442695040888963407
			}
			p := make([]int, n)
			for i := range p {
				p[i] = i
			}
			for i := n - 1; i > 0; i-- {
				state = state*6364136223846793005 + 1442695040888963407
				j := int((state >> 33) %% uint64(i+1))
				p[i], p[j] = p[j], p[i]
			}
			return p
		}
	case "native":
		zzsimhook.Native = true
	case "panic": // proves that the hook is reached by the suite
		zzsimhook.OnKeys = func(site string, n int) []int { panic("zz-order-hook-reached at " + site) }
	}
}
`

// TestRepo instruments a copy of the repository and runs its whole test suite
// with inert hooks and under three key orders.
func TestRepo(t *testing.T) {
	if _, err := os.Stat(filepath.Join(repoDir, "go.mod")); err != nil {
		t.Skip("no repository at " + repoDir)
	}
	dir := filepath.Join(t.TempDir(), "copy")
	mustRun(t, "/", os.Environ(), "rsync", "-a", "--exclude", ".git", repoDir+"/", dir+"/")
	start := time.Now()
	rep, err := Run(dir)
	if err != nil {
		t.Fatal(err)
	}
	t.Logf("Run took %v: %+v", time.Since(start), *rep)
	// The pinned tree has 10 range-over-map sites, 2 MapKeys calls, 1 go statement and
	// 12 channel sites (7 sends, 2 closes, 2 ranges, 1 select; its only receive is the select case).
	for rule, min := range map[string]int{"R1": 10, "R2": 2, "R3": 1, "R4": 1, "R5": 1, "R6": 5} {
		if rep.Sites[rule] < min {
			t.Errorf("Sites[%s] = %d, want >= %d", rule, rep.Sites[rule], min)
		}
	}
	if rep.Files == 0 {
		t.Error("no file rewritten")
	}
	if _, err := Run(dir); err == nil || !strings.Contains(err.Error(), "already instrumented") {
		t.Errorf("second Run on the same copy: got %v, want an 'already instrumented' error", err)
	}
	mustRun(t, dir, goEnv(), "go", "build", "./...")
	mustRun(t, dir, goEnv(), "go", "test", "-vet=off", "-count=1", "./...")

	// Add the order selector to every package that has tests.
	gomod, _ := os.ReadFile(filepath.Join(dir, "go.mod"))
	modPath := string(modRe.FindSubmatch(gomod)[1])
	tests, _ := filepath.Glob(filepath.Join(dir, "*_test.go"))
	sub, _ := filepath.Glob(filepath.Join(dir, "*", "*_test.go"))
	done := map[string]bool{}
	for _, f := range append(tests, sub...) {
		d := filepath.Dir(f)
		if done[d] {
			continue
		}
		done[d] = true
		src, err := os.ReadFile(f)
		if err != nil {
			t.Fatal(err)
		}
		pkg := ""
		for _, line := range strings.Split(string(src), "\n") {
			if strings.HasPrefix(line, "package ") {
				pkg = strings.Fields(line)[1]
				break
			}
		}
		if pkg == "" {
			t.Fatalf("no package clause in %s", f)
		}
		writeFiles(t, d, map[string]string{"zz_order_test.go": fmt.Sprintf(orderTestSrc, pkg, modPath)})
	}
	if !done[dir] {
		t.Fatal("root package has no tests")
	}
	if so, se, err := run(dir, goEnv("ZZ_ORDER=panic"), "go", "test", "-vet=off", "-count=1", "."); err == nil || !strings.Contains(so+se, "zz-order-hook-reached") {
		t.Fatalf("the OnKeys hook is not reached by the root package's suite: %v\n%s\n%s", err, so, se)
	}
	for _, mode := range []string{"reverse", "lcg", "native"} {
		so, se, err := run(dir, goEnv("ZZ_ORDER="+mode), "go", "test", "-vet=off", "-count=1", "./...")
		if err != nil {
			if strings.Contains(so+se, "[build failed]") || strings.Contains(so+se, "[setup failed]") {
				t.Fatalf("ZZ_ORDER=%s: the suite does not build:\n%s\n%s", mode, so, se)
			}
			// Not a defect of the instrumenter: the library (or its suite) depends on map order.
			t.Logf("FINDING: the repository's suite fails only under ZZ_ORDER=%s:\n%s\n%s", mode, so, se)
			continue
		}
		t.Logf("ZZ_ORDER=%s: suite passes", mode)
	}
}

// synthModule writes the synthetic module and returns its directory.
func synthModule(t *testing.T, goVersion string, extra map[string]string) string {
	t.Helper()
	dir := filepath.Join(t.TempDir(), "m")
	files := map[string]string{
		"go.mod":      "module example.com/m\n\ngo " + goVersion + "\n",
		"lib/lib.go":  libSrc,
		"lib2/lib.go": lib2Src,
	}
	for k, v := range extra {
		files[k] = v
	}
	writeFiles(t, dir, files)
	return dir
}

// reverseTokens reverses the "|"-terminated tokens of every line.
func reverseTokens(lines []string) []string {
	var out []string
	for _, l := range lines {
		f := strings.Split(strings.TrimSuffix(l, "|"), "|")
		for i, j := 0, len(f)-1; i < j; i, j = i+1, j-1 {
			f[i], f[j] = f[j], f[i]
		}
		out = append(out, strings.Join(f, "|")+"|")
	}
	return out
}

func TestSynthetic(t *testing.T) {
	for _, goVersion := range []string{"1.13", "1.22"} {
		goVersion := goVersion
		t.Run("go"+goVersion, func(t *testing.T) {
			t.Parallel()
			dir := synthModule(t, goVersion, map[string]string{"cmd/indep/main.go": indepSrc, "cmd/order/main.go": orderSrc})
			want := mustRun(t, dir, goEnv(), "go", "run", "./cmd/indep")
			t.Logf("original output:\n%s", want)
			capt := map[string]string{"1.13": "capture 1 1 1", "1.22": "capture 3 3 3"}[goVersion]
			if !strings.Contains(want, capt) {
				t.Errorf("original program: want %q (loop variable semantics of go%s)", capt, goVersion)
			}
			rep, err := Run(dir)
			if err != nil {
				t.Fatal(err)
			}
			t.Logf("report: %+v", *rep)
			writeFiles(t, dir, map[string]string{"cmd/indep/zzmode.go": modeSrc, "cmd/order/zzmode.go": modeSrc})
			mustRun(t, dir, goEnv(), "go", "build", "-o", "indep.bin", "./cmd/indep")
			mustRun(t, dir, goEnv(), "go", "build", "-o", "order.bin", "./cmd/order")

			// 1. Order independent program: same output whatever the hooks do.
			for _, mode := range []string{"", "reverse", "native", "trace"} {
				if got := mustRun(t, dir, goEnv("ZZ_MODE="+mode), "./indep.bin"); got != want {
					t.Errorf("ZZ_MODE=%q: output differs from the original program\n--- got\n%s--- want\n%s", mode, got, want)
				}
			}

			// 2. Visiting order: canonical by default, reversed on demand.
			wantOrder := []string{
				"B|a|b|c|", "-3z|2y|10x|33w|", "k1|k2|k3|", "20|300|1000|", "-1|2.5|10|", "false|true|",
				"s|2|10|7|1.5|true|{1 2}|{2 1}|", "{1 10}|{1 9}|{2 1}|", "m1|m2|m3|", "1|2|3|", "1|2|4|6",
			}
			if got, want := mustRun(t, dir, goEnv(), "./order.bin"), strings.Join(wantOrder, "\n")+"\n"; got != want {
				t.Errorf("canonical order:\n--- got\n%s--- want\n%s", got, want)
			}
			wantRev := reverseTokens(wantOrder)
			wantRev[len(wantRev)-1] = "4|3|1|6" // 3 deletes 2 before it is reached; the length comes last
			if got, want := mustRun(t, dir, goEnv("ZZ_MODE=reverse"), "./order.bin"), strings.Join(wantRev, "\n")+"\n"; got != want {
				t.Errorf("reversed order:\n--- got\n%s--- want\n%s", got, want)
			}
			if _, se, err := run(dir, goEnv("ZZ_MODE=bad"), "./order.bin"); err == nil || !strings.Contains(se, "is not a permutation") {
				t.Errorf("invalid permutation: want a panic, got err=%v stderr=%s", err, se)
			}

			// 3. Hooks fire with the original source positions.
			_, trace, err := run(dir, goEnv("ZZ_MODE=trace"), "./order.bin")
			if err != nil {
				t.Fatalf("trace run: %v\n%s", err, trace)
			}
			line := func(mark string) int {
				for i, l := range strings.Split(orderSrc, "\n") {
					if strings.Contains(l, "// MARK:"+mark) {
						return i + 1
					}
				}
				t.Fatalf("no mark %s", mark)
				return 0
			}
			site := func(mark string) string { return fmt.Sprintf("example.com/m/cmd/order/main.go:%d", line(mark)) }
			for _, w := range []string{
				"keys " + site("range") + " 4", "keys " + site("mapkeys") + " 3", "tick " + site("range"),
				"go " + site("go"), "enter " + site("go"), "chanop send " + site("send"), "chanop close " + site("deferclose"),
				"chanop range " + site("chanrange"), "tick " + site("chanrange"), "chanop select " + site("select"),
				"chanop recv " + site("recv"), "chanop close " + site("close"),
			} {
				if !strings.Contains(trace, w+"\n") {
					t.Errorf("trace lacks %q", w)
				}
			}
			if n := strings.Count(trace, "chanop range "+site("chanrange")); n != 2 {
				t.Errorf("range over channel: %d range events, want 2 (one value, then closed)", n)
			}
			if t.Failed() {
				t.Logf("trace:\n%s", trace)
				src, _ := os.ReadFile(filepath.Join(dir, "cmd/order/main.go"))
				t.Logf("instrumented source:\n%s", src)
			}
		})
	}
}

func TestUnsupported(t *testing.T) {
	for name, src := range unsupportedSrcs {
		name, src := name, src
		t.Run(strings.Replace(name, " ", "_", -1), func(t *testing.T) {
			t.Parallel()
			dir := synthModule(t, "1.13", map[string]string{"main.go": src})
			mustRun(t, dir, goEnv(), "go", "build", "./...") // the program itself is valid
			_, err := Run(dir)
			var ue *UnsupportedError
			if !errors.As(err, &ue) {
				t.Fatalf("got %v, want an *UnsupportedError", err)
			}
			t.Log(err)
			if got, _ := os.ReadFile(filepath.Join(dir, "main.go")); string(got) != src {
				t.Error("source was modified although Run failed")
			}
			if _, err := os.Stat(filepath.Join(dir, hookName)); err == nil {
				t.Error("hook package was written although Run failed")
			}
		})
	}
}
