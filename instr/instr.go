// Package instr is a source-to-source instrumenter for Go modules. It rewrites
// the sources of a scratch copy of a module so that map enumeration order,
// goroutine creation, channel operations and loop progress are routed through a
// small hook package (zzsimhook) that is written into the copy.
//
// All edits are textual (byte offsets taken from the typed AST), never insert a
// newline (line numbers of the original source are preserved) and keep every
// nested expression in place, so that edits nest freely.
package instr

import (
	_ "embed"
	"fmt"
	"go/ast"
	"go/parser"
	"go/token"
	"os"
	"path/filepath"
	"regexp"
	"sort"
	"strconv"
	"strings"

	"golang.org/x/tools/go/packages"
)

//go:embed hooksrc/hook.go.txt
var hookSrc []byte

const hookName = "zzsimhook"

// Report summarises one Run.
type Report struct {
	Sites map[string]int // rule name ("R1".."R6") -> number of sites rewritten
	Files int            // files rewritten
	Notes []string
	// GoBodies lists the function literals started by go statements: sites inside
	// them are executed by library-owned goroutines only.
	GoBodies []GoBody
}

// UnsupportedError reports a construct that cannot be rewritten faithfully.
type UnsupportedError struct {
	Pos string // file:line:col
	Msg string
}

func (e *UnsupportedError) Error() string { return e.Pos + ": unsupported construct: " + e.Msg }

// edit replaces src[start:end] by text (start==end: pure insertion).
// Edits that start at the same offset are emitted by ascending prio, then seq:
// statements inserted before a statement (0) come before expression prefixes (1),
// which come before replacements (2). Suffix insertions use a negative seq so
// that the innermost expression is closed first.
type edit struct {
	start, end int
	text       string
	prio, seq  int
}

const (
	prioStmt = iota
	prioExpr
	prioRepl
)

func load(dir string) ([]*packages.Package, error) {
	cfg := &packages.Config{
		Mode: packages.NeedName | packages.NeedFiles | packages.NeedCompiledGoFiles | packages.NeedSyntax | packages.NeedTypes |
			packages.NeedTypesInfo | packages.NeedImports | packages.NeedDeps | packages.NeedModule,
		Dir:   dir,
		Env:   append(os.Environ(), "GOFLAGS=-mod=mod", "GOPROXY=off", "GOSUMDB=off", "GOTOOLCHAIN=local"),
		Tests: false,
	}
	pkgs, err := packages.Load(cfg, "./...")
	if err != nil {
		return nil, err
	}
	var msgs []string
	packages.Visit(pkgs, nil, func(p *packages.Package) {
		for _, e := range p.Errors {
			msgs = append(msgs, e.Error())
		}
	})
	if len(msgs) > 0 {
		if len(msgs) > 10 {
			msgs = append(msgs[:10], fmt.Sprintf("... and %d more", len(msgs)-10))
		}
		return nil, fmt.Errorf("package errors:\n\t%s", strings.Join(msgs, "\n\t"))
	}
	return pkgs, nil
}

var (
	modRe = regexp.MustCompile(`(?m)^module\s+(\S+)`)
	goRe  = regexp.MustCompile(`(?m)^go\s+1\.(\d+)`)
)

// Run instruments, in place, every non-test .go file of every package of the Go
// module rooted at dir and writes the hook package to dir/zzsimhook/hook.go.
// Nothing is written unless every file could be rewritten.
func Run(dir string) (*Report, error) {
	dir, err := filepath.Abs(dir)
	if err != nil {
		return nil, err
	}
	if d, err := filepath.EvalSymlinks(dir); err == nil {
		dir = d
	}
	gomod, err := os.ReadFile(filepath.Join(dir, "go.mod"))
	if err != nil {
		return nil, err
	}
	m := modRe.FindSubmatch(gomod)
	if m == nil {
		return nil, fmt.Errorf("%s/go.mod: no module line", dir)
	}
	modPath := strings.Trim(string(m[1]), `"`)
	goMinor := 0
	if g := goRe.FindSubmatch(gomod); g != nil {
		goMinor, _ = strconv.Atoi(string(g[1]))
	}
	hookPath, hookDir := modPath+"/"+hookName, filepath.Join(dir, hookName)

	pkgs, err := load(dir)
	if err != nil {
		return nil, fmt.Errorf("loading %s: %v", dir, err)
	}
	rep := &Report{Sites: map[string]int{}}
	for _, r := range []string{"R1", "R2", "R3", "R4", "R5", "R6"} {
		rep.Sites[r] = 0
	}
	syncFiles := map[string][]string{}
	out := map[string][]byte{}
	sort.Slice(pkgs, func(i, j int) bool { return pkgs[i].PkgPath < pkgs[j].PkgPath })
	for _, p := range pkgs {
		if p.PkgPath == hookPath {
			continue
		}
		for _, ign := range p.IgnoredFiles {
			if !strings.HasSuffix(ign, "_test.go") {
				rep.Notes = append(rep.Notes, "not instrumented (excluded by build constraints): "+rel(dir, ign))
			}
		}
		for _, f := range p.Syntax {
			tf := p.Fset.File(f.Pos())
			name := tf.Name()
			if !strings.HasSuffix(name, ".go") || strings.HasSuffix(name, "_test.go") ||
				!strings.HasPrefix(name, dir+string(filepath.Separator)) || strings.HasPrefix(name, hookDir+string(filepath.Separator)) {
				continue
			}
			src, err := os.ReadFile(name)
			if err != nil {
				return nil, err
			}
			if len(src) != tf.Size() {
				return nil, fmt.Errorf("%s changed while loading", name)
			}
			fc := &fileCtx{pkg: p, file: f, tf: tf, src: src, base: filepath.Base(name), hookPath: hookPath, goMinor: goMinor, sites: rep.Sites}
			if err := fc.instrument(); err != nil {
				return nil, err
			}
			for _, s := range fc.syncImports {
				syncFiles[s] = append(syncFiles[s], rel(dir, name))
			}
			rep.Notes = append(rep.Notes, fc.notes...)
			rep.GoBodies = append(rep.GoBodies, fc.goBodies...)
			if len(fc.edits) == 0 {
				continue
			}
			fc.add(tf.Offset(f.Name.End()), tf.Offset(f.Name.End()), "; import "+hookName+" "+strconv.Quote(hookPath), prioStmt)
			res, err := apply(src, fc.edits)
			if err != nil {
				return nil, fmt.Errorf("%s: %v", name, err)
			}
			out[name] = res
		}
	}
	for _, s := range []string{"sync", "sync/atomic"} {
		if len(syncFiles[s]) > 0 {
			rep.Notes = append(rep.Notes, fmt.Sprintf("import of %q (not instrumented) in: %s", s, strings.Join(syncFiles[s], ", ")))
		}
	}

	// Write everything, then make sure the result parses and type-checks.
	for name, b := range out {
		if err := os.WriteFile(name, b, 0o644); err != nil {
			return nil, err
		}
	}
	if err := os.MkdirAll(hookDir, 0o755); err != nil {
		return nil, err
	}
	if err := os.WriteFile(filepath.Join(hookDir, "hook.go"), hookSrc, 0o644); err != nil {
		return nil, err
	}
	var gb strings.Builder
	gb.WriteString("package zzsimhook\n\n// GoBodyRange is the line range of a function literal started by a go statement.\ntype GoBodyRange struct {\n\tFile     string\n\tFrom, To int\n}\n\n// GoBodyRanges is generated by the instrumenter.\nvar GoBodyRanges = []GoBodyRange{\n")
	for _, g := range rep.GoBodies {
		fmt.Fprintf(&gb, "\t{%q, %d, %d},\n", g.File, g.From, g.To)
	}
	gb.WriteString("}\n")
	if err := os.WriteFile(filepath.Join(hookDir, "gobodies.go"), []byte(gb.String()), 0o644); err != nil {
		return nil, err
	}
	rep.Files = len(out)
	fset := token.NewFileSet()
	for name, b := range out { // same check as `gofmt -e`: report all syntax errors
		if _, err := parser.ParseFile(fset, name, b, parser.AllErrors|parser.ParseComments); err != nil {
			return nil, fmt.Errorf("instrumented file does not parse: %v", err)
		}
	}
	if _, err := load(dir); err != nil {
		return nil, fmt.Errorf("instrumented copy does not type-check: %v", err)
	}
	return rep, nil
}

func rel(dir, name string) string {
	if r, err := filepath.Rel(dir, name); err == nil {
		return r
	}
	return name
}

// apply builds the rewritten text front to back; overlapping edits are a bug.
func apply(src []byte, edits []edit) ([]byte, error) {
	sort.SliceStable(edits, func(i, j int) bool {
		a, b := edits[i], edits[j]
		if a.start != b.start {
			return a.start < b.start
		}
		if a.prio != b.prio {
			return a.prio < b.prio
		}
		return a.seq < b.seq
	})
	var out []byte
	cur := 0
	for _, e := range edits {
		if e.start < cur || e.end < e.start || e.end > len(src) {
			return nil, fmt.Errorf("internal error: overlapping edits at offset %d (%q)", e.start, e.text)
		}
		out = append(out, src[cur:e.start]...)
		out = append(out, e.text...)
		cur = e.end
	}
	return append(out, src[cur:]...), nil
}

// fileCtx carries the state of the rewrite of one file.
type fileCtx struct {
	pkg      *packages.Package
	file     *ast.File
	tf       *token.File
	src      []byte
	base     string
	hookPath string
	goMinor  int
	sites    map[string]int

	imports     map[string]string // import path -> name under which it is visible in this file
	syncImports []string
	notes       []string
	parents     map[ast.Node]ast.Node
	edits       []edit
	seq, tmp    int
	goBodies    []GoBody
}

// GoBody is the line range of a function literal started by a go statement.
type GoBody struct {
	File     string // "<import path>/<file base name>", as in site strings
	From, To int
}

func (fc *fileCtx) off(p token.Pos) int { return fc.tf.Offset(p) }

func (fc *fileCtx) text(n ast.Node) string { return string(fc.src[fc.off(n.Pos()):fc.off(n.End())]) }

func (fc *fileCtx) site(p token.Pos) string {
	return strconv.Quote(fmt.Sprintf("%s/%s:%d", fc.pkg.PkgPath, fc.base, fc.tf.PositionFor(p, false).Line))
}

func (fc *fileCtx) add(start, end int, text string, prio int) {
	fc.seq++
	fc.edits = append(fc.edits, edit{start, end, text, prio, fc.seq})
}

// before inserts a statement in front of position p (the start of a statement).
func (fc *fileCtx) before(p token.Pos, text string) { fc.add(fc.off(p), fc.off(p), text, prioStmt) }

// after inserts text right behind position p-1 (e.g. behind an opening brace).
func (fc *fileCtx) after(p token.Pos, text string) { fc.add(fc.off(p), fc.off(p), text, prioRepl) }

// replace substitutes the source text in [from,to).
func (fc *fileCtx) replace(from, to token.Pos, text string) {
	fc.add(fc.off(from), fc.off(to), text, prioRepl)
}

// wrap surrounds the expression [from,to) with prefix and suffix.
func (fc *fileCtx) wrap(from, to token.Pos, prefix, suffix string) {
	fc.add(fc.off(from), fc.off(from), prefix, prioExpr)
	fc.suffix(to, suffix)
}

// suffix inserts text right behind an expression that ends at p. It sorts before
// everything else at that offset, innermost expression first.
func (fc *fileCtx) suffix(p token.Pos, text string) {
	fc.seq++
	fc.edits = append(fc.edits, edit{fc.off(p), fc.off(p), text, prioStmt, -fc.seq})
}

func (fc *fileCtx) temp(prefix string) string { return "zz" + prefix + strconv.Itoa(fc.tmp) }

func (fc *fileCtx) unsupported(p token.Pos, format string, args ...interface{}) error {
	return &UnsupportedError{Pos: fc.pkg.Fset.PositionFor(p, false).String(), Msg: fmt.Sprintf(format, args...)}
}

func (fc *fileCtx) note(p token.Pos, format string, args ...interface{}) {
	pos := fc.pkg.Fset.PositionFor(p, false)
	fc.notes = append(fc.notes, fmt.Sprintf("%s/%s:%d: %s", fc.pkg.PkgPath, fc.base, pos.Line, fmt.Sprintf(format, args...)))
}
