package instr

import (
	"fmt"
	"go/ast"
	"go/token"
	"go/types"
	"regexp"
	"strconv"
	"strings"
)

var reservedRe = regexp.MustCompile(`^zz(simhook|x|r|(it|ch|ok|v|f|a|c|cv)\d+)$`)

// instrument computes the edits of one file.
func (fc *fileCtx) instrument() error {
	info := fc.pkg.TypesInfo
	fc.imports = map[string]string{}
	for _, spec := range fc.file.Imports {
		path, _ := strconv.Unquote(spec.Path.Value)
		if path == fc.hookPath {
			return fmt.Errorf("%s: already instrumented", fc.tf.Name())
		}
		if path == "sync" || path == "sync/atomic" {
			fc.syncImports = append(fc.syncImports, path)
		}
		var obj types.Object
		if spec.Name != nil {
			obj = info.Defs[spec.Name]
		} else {
			obj = info.Implicits[spec]
		}
		if pn, ok := obj.(*types.PkgName); ok && pn.Name() != "_" && pn.Name() != "." {
			fc.imports[path] = pn.Name()
		}
	}
	// One pass to record parents and to refuse identifiers that could collide.
	fc.parents = map[ast.Node]ast.Node{}
	var stack []ast.Node
	var err error
	ast.Inspect(fc.file, func(n ast.Node) bool {
		if n == nil {
			stack = stack[:len(stack)-1]
			return true
		}
		if len(stack) > 0 {
			fc.parents[n] = stack[len(stack)-1]
		}
		stack = append(stack, n)
		if id, ok := n.(*ast.Ident); ok && reservedRe.MatchString(id.Name) && err == nil {
			err = fc.unsupported(id.Pos(), "identifier %s collides with names reserved for the instrumentation", id.Name)
		}
		return true
	})
	if err != nil {
		return err
	}
	ast.Inspect(fc.file, func(n ast.Node) bool {
		if n == nil || err != nil {
			return false
		}
		err = fc.visit(n)
		return err == nil
	})
	return err
}

func (fc *fileCtx) count(rule string) { fc.sites[rule]++ }

func (fc *fileCtx) visit(n ast.Node) error {
	info := fc.pkg.TypesInfo
	switch n := n.(type) {
	case *ast.FuncDecl: // R3
		if n.Body != nil {
			fc.after(n.Body.Lbrace+1, " "+hookName+".Enter("+fc.site(n.Pos())+");")
			fc.count("R3")
		}
	case *ast.FuncLit: // R3
		fc.after(n.Body.Lbrace+1, " "+hookName+".Enter("+fc.site(n.Pos())+");")
		fc.count("R3")
	case *ast.ForStmt: // R4
		fc.tick(n.For, n.Body)
	case *ast.RangeStmt:
		var err error
		switch t := info.TypeOf(n.X); u := types.Unalias(t).Underlying().(type) {
		case *types.Map:
			err = fc.rangeMap(n, u)
		case *types.Chan:
			err = fc.rangeChan(n, u)
		case *types.Interface:
			if _, ok := types.Unalias(t).(*types.TypeParam); ok {
				err = fc.unsupported(n.Pos(), "range over a value of type parameter type %s", t)
			}
		}
		if err != nil {
			return err
		}
		fc.tick(n.For, n.Body)
	case *ast.SelectorExpr: // R2 and notes about uncontrolled map enumeration
		fn, _ := info.Uses[n.Sel].(*types.Func)
		if fn == nil {
			break
		}
		switch fn.FullName() {
		case "(reflect.Value).MapKeys":
			call, ok := fc.parents[n].(*ast.CallExpr)
			if !ok || call.Fun != n {
				return fc.unsupported(n.Pos(), "method value (reflect.Value).MapKeys")
			}
			fc.wrap(call.Pos(), call.End(), hookName+".ReflectKeys("+fc.site(n.Sel.Pos())+", ", ")")
			fc.count("R2")
		case "(reflect.Value).MapRange", "maps.Keys", "maps.Values", "maps.All":
			fc.note(n.Pos(), "map enumeration via %s is not instrumented", fn.FullName())
		}
	case *ast.GoStmt: // R5
		return fc.goStmt(n)
	case *ast.SendStmt: // R6
		if fc.isComm(n) {
			break
		}
		if !fc.inList(n) {
			return fc.unsupported(n.Pos(), "channel send that is not an element of a statement list")
		}
		fc.chanOp(n, n.Arrow, "send")
	case *ast.UnaryExpr: // R6
		if n.Op == token.ARROW {
			return fc.recv(n)
		}
	case *ast.SelectStmt: // R6
		comms := 0
		for _, c := range n.Body.List {
			if c.(*ast.CommClause).Comm != nil {
				comms++
			}
		}
		if comms > 1 {
			return fc.unsupported(n.Pos(), "select with %d communication cases", comms)
		}
		if !fc.inList(n) {
			return fc.unsupported(n.Pos(), "select that is not an element of a statement list")
		}
		fc.chanOp(n, n.Select, "select")
	case *ast.ExprStmt: // R6: close(ch)
		if call := fc.closeCall(n.X); call != nil {
			if !fc.inList(n) {
				return fc.unsupported(n.Pos(), "close that is not an element of a statement list")
			}
			fc.chanOp(n, call.Pos(), "close")
		}
	case *ast.DeferStmt: // R6: defer close(ch)
		if call := fc.closeCall(n.Call); call != nil {
			if !fc.inList(n) {
				return fc.unsupported(n.Pos(), "defer close that is not an element of a statement list")
			}
			// The operand is evaluated when the defer statement executes; a defer
			// inside a nested block still runs when the function returns.
			fc.tmp++
			c := fc.temp("c")
			fc.replace(n.Defer, call.Args[0].Pos(), "{ "+c+" := ")
			fc.replace(call.Args[0].End(), call.End(), "; defer func() { "+hookName+".ChanOp("+fc.site(n.Defer)+", \"close\"); close("+c+") }() }")
			fc.count("R6")
		}
	}
	return nil
}

// tick inserts the R4 hook as first statement of a loop body.
func (fc *fileCtx) tick(pos token.Pos, body *ast.BlockStmt) {
	fc.after(body.Lbrace+1, " "+hookName+".Tick("+fc.site(pos)+");")
	fc.count("R4")
}

// chanOp inserts a ChanOp hook before statement s (before its labels).
func (fc *fileCtx) chanOp(s ast.Stmt, at token.Pos, kind string) {
	fc.before(fc.labeled(s).Pos(), hookName+".ChanOp("+fc.site(at)+", "+strconv.Quote(kind)+"); ")
	fc.count("R6")
}

// labeled returns the outermost labeled statement wrapping s (or s itself).
func (fc *fileCtx) labeled(s ast.Stmt) ast.Stmt {
	for {
		l, ok := fc.parents[s].(*ast.LabeledStmt)
		if !ok {
			return s
		}
		s = l
	}
}

// inList reports whether s (or the labeled statement around it) is a direct
// element of a statement list: a block, a case body or a select case body.
func (fc *fileCtx) inList(s ast.Stmt) bool {
	s = fc.labeled(s)
	switch s.(type) {
	case *ast.CaseClause, *ast.CommClause:
		return false
	}
	switch p := fc.parents[s].(type) {
	case *ast.BlockStmt, *ast.CaseClause:
		return true
	case *ast.CommClause:
		return p.Comm != s
	}
	return false
}

// isComm reports whether s is the communication of a select case.
func (fc *fileCtx) isComm(s ast.Stmt) bool {
	c, ok := fc.parents[s].(*ast.CommClause)
	return ok && c.Comm == s
}

// closeCall returns e as a call of the builtin close, or nil.
func (fc *fileCtx) closeCall(e ast.Expr) *ast.CallExpr {
	call, ok := e.(*ast.CallExpr)
	if !ok || len(call.Args) != 1 {
		return nil
	}
	id, ok := ast.Unparen(call.Fun).(*ast.Ident)
	if !ok {
		return nil
	}
	if b, ok := fc.pkg.TypesInfo.Uses[id].(*types.Builtin); !ok || b.Name() != "close" {
		return nil
	}
	return call
}

// recv handles a receive expression that is not the communication of a select
// case: the hook goes before the innermost enclosing statement, which must
// evaluate the receive exactly once and unconditionally.
func (fc *fileCtx) recv(u *ast.UnaryExpr) error {
	var child ast.Node = u
	for p := fc.parents[u]; p != nil; child, p = p, fc.parents[p] {
		if b, ok := p.(*ast.BinaryExpr); ok && (b.Op == token.LAND || b.Op == token.LOR) && b.Y == child {
			return fc.unsupported(u.Pos(), "conditionally evaluated channel receive (right operand of %s)", b.Op)
		}
		s, ok := p.(ast.Stmt)
		if !ok {
			continue
		}
		if fc.isComm(s) {
			return nil // covered by the hook in front of the select statement
		}
		switch s := s.(type) {
		case *ast.ForStmt, *ast.CaseClause:
			return fc.unsupported(u.Pos(), "channel receive in a loop condition or case expression")
		case *ast.RangeStmt:
			if child != s.X {
				return fc.unsupported(u.Pos(), "channel receive in the iteration variables of a range statement")
			}
		}
		if !fc.inList(s) {
			// the init statement of an if / switch / for runs exactly once, right when the
			// enclosing statement starts: the hook can go in front of that statement
			var outer ast.Stmt
			switch o := fc.parents[s].(type) {
			case *ast.IfStmt:
				if o.Init == s {
					outer = o
				}
			case *ast.SwitchStmt:
				if o.Init == s {
					outer = o
				}
			case *ast.TypeSwitchStmt:
				if o.Init == s {
					outer = o
				}
			case *ast.ForStmt:
				if o.Init == s {
					outer = o
				}
			}
			if outer != nil && fc.inList(outer) {
				fc.chanOp(outer, u.OpPos, "recv")
				return nil
			}
			return fc.unsupported(u.Pos(), "channel receive in a statement that is not an element of a statement list (e.g. else-if init)")
		}
		fc.chanOp(s, u.OpPos, "recv")
		return nil
	}
	return fc.unsupported(u.Pos(), "channel receive outside of a statement")
}

// pure reports whether evaluating e has no side effect and needs no hook.
func pure(e ast.Expr) bool {
	ok := true
	ast.Inspect(e, func(n ast.Node) bool {
		switch n := n.(type) {
		case *ast.CallExpr, *ast.FuncLit:
			ok = false
		case *ast.UnaryExpr:
			ok = ok && n.Op != token.ARROW
		}
		return ok
	})
	return ok
}

// loopVars analyses the iteration variables of a range statement. For every
// non-blank variable it returns the expression text; define tells whether they
// are declared by the statement.
func (fc *fileCtx) loopVars(rs *ast.RangeStmt) (key, val string, define bool, err error) {
	define = rs.Tok == token.DEFINE
	get := func(e ast.Expr) (string, error) {
		if e == nil {
			return "", nil
		}
		if id, ok := e.(*ast.Ident); ok && id.Name == "_" {
			return "", nil
		}
		if !define && !pure(e) {
			return "", fc.unsupported(e.Pos(), "range assigns to an expression with side effects")
		}
		return fc.text(e), nil
	}
	if key, err = get(rs.Key); err == nil {
		val, err = get(rs.Value)
	}
	return
}

// rangeMap is R1. The iteration variables are declared in the init statement of
// a three-clause loop and assigned at the top of the body: this gives them
// exactly the lifetime they have in a range loop under every language version
// (one instance per loop before go1.22, one per iteration since), so closures
// and pointers that capture them keep their meaning.
//
//	for k, v := range m {   =>  for zzit1, k, v := zzsimhook.Range(site, m), *new(K), *new(V); zzit1.Next(); { k, _ = zzit1.Key().(K); v, _ = zzit1.Val().(V);
//	for k, v = range m {    =>  for zzit1 := zzsimhook.Range(site, m); zzit1.Next(); { k, _ = zzit1.Key().(K); v, _ = zzit1.Val().(V);
//
// K and V are evaluated at the position of the loop; see the fallback below for
// iteration variables that shadow a name used by K or V.
func (fc *fileCtx) rangeMap(rs *ast.RangeStmt, m *types.Map) error {
	key, val, define, err := fc.loopVars(rs)
	if err != nil {
		return err
	}
	fc.tmp++
	it := fc.temp("it")
	lhs, rhs, body := it, "", ""
	for _, v := range []struct {
		name, get string
		typ       types.Type
	}{{key, "Key", m.Key()}, {val, "Val", m.Elem()}} {
		if v.name == "" {
			continue
		}
		ts, used, err := fc.typeExpr(v.typ, rs.Pos())
		if err != nil {
			return err
		}
		get := it + "." + v.get + "()"
		if !define {
			body += " " + v.name + ", _ = " + get + ".(" + ts + ");"
			continue
		}
		lhs += ", " + v.name
		rhs += ", " + fc.zero(ts, rs.Pos())
		if used[key] || used[val] {
			// An iteration variable shadows a name of the type inside the body (e.g.
			// `for _, value := range map[string]value{}`): convert with a function
			// that is built where the name still denotes the type.
			fc.tmp++
			cv := fc.temp("cv")
			lhs += ", " + cv
			rhs += ", func(zzx interface{}) (zzr " + ts + ") { zzr, _ = zzx.(" + ts + "); return }"
			body += " " + v.name + " = " + cv + "(" + get + ");"
		} else {
			body += " " + v.name + ", _ = " + get + ".(" + ts + ");"
		}
	}
	fc.replace(rs.For, rs.X.Pos(), "for "+lhs+" := "+hookName+".Range("+fc.site(rs.For)+", ")
	fc.replace(rs.X.End(), rs.Body.Lbrace+1, ")"+rhs+"; "+it+".Next(); {"+body)
	fc.count("R1")
	return nil
}

// zero returns an expression for the zero value of the type spelled ts.
func (fc *fileCtx) zero(ts string, pos token.Pos) string {
	scope := fc.pkg.Types.Scope().Innermost(pos)
	if _, obj := scope.LookupParent("new", pos); obj != types.Universe.Lookup("new") {
		return "func() (zzr " + ts + ") { return }()" // the builtin new is shadowed
	}
	return "*new(" + ts + ")"
}

// rangeChan is R6 for `for x := range ch`. The channel expression is evaluated
// once, in the init statement, like in the original.
//
//	for x := range ch {  =>  for zzch1, x := ch, *new(T); ; { zzsimhook.ChanOp(site, "range"); zzv1, zzok1 := <-zzch1; if !zzok1 { break }; x = zzv1;
func (fc *fileCtx) rangeChan(rs *ast.RangeStmt, c *types.Chan) error {
	key, val, define, err := fc.loopVars(rs)
	if err != nil {
		return err
	}
	if val != "" || (rs.Value != nil && define) {
		return fc.unsupported(rs.Pos(), "range over channel with two iteration variables")
	}
	fc.tmp++
	ch, ok, v := fc.temp("ch"), fc.temp("ok"), "_"
	lhs, rhs, assign := ch, "", ""
	if key != "" {
		if define {
			ts, _, err := fc.typeExpr(c.Elem(), rs.Pos())
			if err != nil {
				return err
			}
			lhs += ", " + key
			rhs = ", " + fc.zero(ts, rs.Pos())
		}
		// The variable is only assigned when a value was received.
		v = fc.temp("v")
		assign = " " + key + " = " + v + ";"
	}
	body := " " + hookName + ".ChanOp(" + fc.site(rs.For) + ", \"range\"); " + v + ", " + ok + " := <-" + ch + ";"
	body += " if !" + ok + " { break };" + assign
	fc.replace(rs.For, rs.X.Pos(), "for "+lhs+" := ")
	fc.replace(rs.X.End(), rs.Body.Lbrace+1, rhs+"; ; {"+body)
	fc.count("R6")
	return nil
}

// goStmt is R5. The function value and the arguments of a go statement are
// evaluated by the calling goroutine, so everything that is not a constant or a
// declared function is bound to a temporary first (in source order, in place):
//
//	go func() { .. }()  =>  zzsimhook.Go(site, func() { func() { .. }() })
//	go x.f(a, 1, b)     =>  { zzf1 := x.f; zza2 := a; zza3 := b; zzsimhook.Go(site, func() { zzf1(zza2, 1, zza3) }) }
func (fc *fileCtx) goStmt(g *ast.GoStmt) error {
	info := fc.pkg.TypesInfo
	call := g.Call
	fun := ast.Unparen(call.Fun)
	if tv := info.Types[fun]; tv.IsType() || tv.IsBuiltin() {
		return fc.unsupported(g.Pos(), "go statement calling a builtin or a conversion")
	}
	static := false // fun names a declared function: nothing to evaluate
	switch f := fun.(type) {
	case *ast.Ident:
		fn, ok := info.Uses[f].(*types.Func)
		static = ok && fn.Type().(*types.Signature).Recv() == nil
	case *ast.SelectorExpr:
		if _, isPkg := info.Uses[identOf(f.X)].(*types.PkgName); isPkg {
			_, static = info.Uses[f.Sel].(*types.Func)
		}
	}
	_, lit := fun.(*ast.FuncLit)
	var bound []ast.Expr // expressions that stay in place and are bound to temporaries
	var names []string
	bind := func(e ast.Expr, prefix string) string {
		fc.tmp++
		bound, names = append(bound, e), append(names, fc.temp(prefix))
		return names[len(names)-1]
	}
	var args []string
	for _, a := range call.Args {
		if tv := info.Types[a]; tv.Value != nil || tv.IsNil() {
			args = append(args, fc.text(a))
		} else {
			args = append(args, "")
		}
	}
	nbind := 0
	for _, a := range args {
		if a == "" {
			nbind++
		}
	}
	site := fc.site(g.Go)
	if fl, ok := fun.(*ast.FuncLit); ok {
		// every site inside this literal is only ever executed by the new goroutine
		fc.goBodies = append(fc.goBodies, GoBody{
			File: fc.pkg.PkgPath + "/" + fc.base,
			From: fc.tf.PositionFor(fl.Body.Lbrace, false).Line,
			To:   fc.tf.PositionFor(fl.Body.Rbrace, false).Line,
		})
	} else {
		fc.notes = append(fc.notes, fmt.Sprintf("%s: go statement with a named function: the sites of its body are not known to be goroutine-only", fc.site(g.Go)))
	}
	if nbind == 0 && (static || lit) {
		// Nothing is evaluated by the go statement itself: wrap the call in place.
		fc.replace(g.Go, call.Pos(), hookName+".Go("+site+", func() { ")
		fc.suffix(call.End(), " })")
		fc.count("R5")
		return nil
	}
	if !fc.inList(g) {
		return fc.unsupported(g.Pos(), "go statement with operands to evaluate that is not an element of a statement list")
	}
	callee := fc.text(call.Fun)
	if !static {
		callee = bind(call.Fun, "f")
	}
	for i, a := range call.Args {
		if args[i] == "" {
			args[i] = bind(a, "a")
		}
	}
	if call.Ellipsis.IsValid() {
		args[len(args)-1] += "..."
	}
	from := g.Go
	for i, e := range bound {
		sep := "; "
		if i == 0 {
			sep = "{ "
		}
		fc.replace(from, e.Pos(), sep+names[i]+" := ")
		from = e.End()
	}
	fc.replace(from, call.End(), "; "+hookName+".Go("+site+", func() { "+callee+"("+strings.Join(args, ", ")+") }) }")
	fc.count("R5")
	return nil
}

func identOf(e ast.Expr) *ast.Ident {
	id, _ := e.(*ast.Ident)
	return id
}
