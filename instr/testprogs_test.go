package instr

// Sources of the synthetic module used by TestSynthetic. They must compile
// under language version go1.13.

const libSrc = `package lib

type ID int

type Thing struct {
	Name string
	N    int
}

type hidden struct{ X int }

func Hidden() map[string]hidden { return map[string]hidden{"a": {1}} }
`

// indepSrc prints only things that do not depend on map enumeration order, so
// that the output of the original and of the instrumented program must agree.
const indepSrc = `package main

import (
	"fmt"
	"reflect"
	"sort"
	"strings"

	xl "example.com/m/lib"
)

type Key string

type S struct {
	A int
	B string
}

type NM map[Key]S

var calls int

func mk() map[string]int { calls++; return map[string]int{"a": 1, "b": 2, "c": 3} }

func show(tag string, xs []string) { sort.Strings(xs); fmt.Println(tag, strings.Join(xs, ",")) }

func variants() {
	m := map[string]int{"a": 1, "b": 2, "c": 3, "d": 4}
	n := 0
	for range m {
		n++
	}
	fmt.Println("for range m", n)
	var ks []string
	for k := range m {
		ks = append(ks, k)
	}
	show("k :=", ks)
	ks = nil
	for k, _ := range m {
		ks = append(ks, k)
	}
	show("k, _ :=", ks)
	sum := 0
	for _, v := range m {
		sum += v
	}
	fmt.Println("_, v :=", sum)
	ks = nil
	for k, v := range m { // a comment after the brace
		ks = append(ks, fmt.Sprint(k, v))
	}
	show("k, v :=", ks)

	var k string
	var v int
	ks = nil
	for k = range m {
		ks = append(ks, k)
	}
	show("k =", ks)
	ks = nil
	for k, v = range m {
		ks = append(ks, fmt.Sprint(k, v))
	}
	show("k, v =", ks)
	sum = 0
	for _, v = range m {
		sum += v
	}
	fmt.Println("_, v =", sum)
	ks = nil
	for k, _ = range m {
		ks = append(ks, k)
	}
	show("k, _ =", ks)
	var ik interface{}
	var st struct{ v int }
	arr := make([]int64, 1)
	m64 := map[string]int64{"x": 5, "y": 6}
	sum = 0
	for ik, st.v = range m {
		sum += st.v + len(ik.(string))
	}
	for _, arr[0] = range m64 {
		sum += int(arr[0])
	}
	fmt.Println("assign to interface/field/index", sum)
	ks = nil
	for k := range mk() {
		ks = append(ks, k)
	}
	show("call", ks)
	fmt.Println("calls", calls)
}

func labeled() {
	m := map[int][]int{1: {1, 2, 3}, 2: {4, 5, 6}, 3: {7, 8, 9}}
	total := 0
outer:
	for _, vs := range m {
		for _, v := range vs {
			if v%2 == 0 {
				continue outer
			}
			total += v
		}
		total += 1000
	}
	fmt.Println("continue outer", total)
	found := 0
L2:
	for k := range map[int]bool{5: true} {
		for {
			found = k
			break L2
		}
	}
	fmt.Println("break L2", found)
	cnt := 0
	for k := range m {
		if k == 2 {
			continue
		}
		cnt++
	}
	fmt.Println("continue", cnt)
}

func mutate() {
	m := map[int]int{}
	for i := 0; i < 20; i++ {
		m[i] = i
	}
	visits := 0
	for k := range m {
		visits++
		for j := 0; j < 20; j++ {
			if j != k {
				delete(m, j) // none of the others may be visited any more
			}
		}
	}
	fmt.Println("visits after delete", visits, len(m))
	var nm map[string]int
	var nn NM
	for k, v := range nm {
		fmt.Println("never", k, v)
	}
	for k := range nn {
		fmt.Println("never", k)
	}
	fmt.Println("nil maps ok")
}

type iface interface{ M() int }
type impl int

func (i impl) M() int { return int(i) }

func typesOfMaps() {
	var out []string
	for k, v := range map[int]S{10: {1, "x"}, 2: {2, "y"}} {
		out = append(out, fmt.Sprint(k, v.A, v.B))
	}
	for k, v := range (NM{"p": {3, "z"}, "q": {4, "w"}}) {
		out = append(out, string(k)+v.B)
	}
	for k, v := range map[string]xl.Thing{"t": {"n", 1}, "u": {"o", 2}} {
		out = append(out, k+v.Name)
	}
	for k, v := range map[xl.ID]*xl.Thing{7: {"ptr", 1}, 8: nil} {
		out = append(out, fmt.Sprint(k, v == nil))
	}
	for k, v := range map[string]interface{}{"nil": nil, "one": 1} {
		out = append(out, fmt.Sprint(k, v))
	}
	for k, v := range map[string]error{"noerr": nil, "err": fmt.Errorf("boom")} {
		out = append(out, fmt.Sprint(k, v))
	}
	for k, v := range map[string]iface{"i": impl(3), "j": nil} {
		if v != nil {
			out = append(out, fmt.Sprint(k, v.M()))
		}
	}
	for k, v := range map[interface{}]int{1: 1, "a": 2, nil: 3, 2.5: 4} {
		out = append(out, fmt.Sprint(k, v))
	}
	for k, v := range map[[2]int]func() int{{1, 2}: func() int { return 12 }} {
		out = append(out, fmt.Sprint(k, v()))
	}
	for k, v := range map[bool]map[string][]int{true: {"a": {1}}, false: nil} {
		out = append(out, fmt.Sprint(k, v))
	}
	for k, v := range map[S]chan<- int{{1, "k"}: nil} {
		out = append(out, fmt.Sprint(k, v == nil))
	}
	for k, v := range map[float64]struct{ X, y int }{1.5: {1, 2}} {
		out = append(out, fmt.Sprint(k, v.X, v.y))
	}
	type loc struct{ z int }
	for k, v := range map[uint8]loc{200: {1}, 3: {2}} {
		out = append(out, fmt.Sprint(k, v.z))
	}
	for _, S := range map[string]S{"shadow": {9, "s"}} { // the variable shadows its own type
		out = append(out, S.B)
	}
	for Key, xl := range map[Key]xl.ID{"shadow2": 4} { // shadows a type and a package name
		out = append(out, fmt.Sprint(Key, xl))
	}
	{
		new := 1 // shadows the builtin
		for k := range map[string]int{"new": new} {
			out = append(out, k)
		}
	}
	for k := range xl.Hidden() { // unexported element type, but no variable of that type is needed
		out = append(out, "hidden"+k)
	}
	show("types", out)
}

// capture tells whether the iteration variables are per loop (go < 1.22) or per
// iteration (go >= 1.22): the rewrite must not change that.
func capture() {
	m := map[string]int{"a": 1, "b": 2, "c": 3}
	var fs []func() string
	ptrs := map[*int]bool{}
	for k, v := range m {
		fs = append(fs, func() string { return fmt.Sprint(k, v) })
		ptrs[&v] = true
	}
	distinct := map[string]bool{}
	for _, f := range fs {
		distinct[f()] = true
	}
	ch := make(chan int, 3)
	ch <- 1
	ch <- 2
	ch <- 3
	close(ch)
	cptrs := map[*int]bool{}
	for x := range ch {
		cptrs[&x] = true
	}
	fmt.Println("capture", len(distinct), len(ptrs), len(cptrs))
}

func gen(n int) <-chan int {
	c := make(chan int)
	go func() {
		defer close(c)
		for i := 0; i < n; i++ {
			c <- i
		}
	}()
	return c
}

func chans() {
	ch := make(chan int, 10)
	for i := 0; i < 10; i++ {
		ch <- i
	}
	close(ch)
	sum := 0
	for x := range ch {
		if x%2 == 0 {
			continue
		}
		if x == 7 {
			break
		}
		sum += x
	}
	fmt.Println("range chan break/continue", sum, len(ch))
	var y int
	ch2 := make(chan int, 3)
	ch2 <- 1
	ch2 <- 2
	close(ch2)
	for y = range ch2 {
	}
	fmt.Println("y =", y)
	n := 0
	for range gen(4) {
		n++
	}
	fmt.Println("for range gen", n)
	sum = 0
outer:
	for x := range gen(5) {
		for i := 0; i < 3; i++ {
			if i == x {
				continue outer
			}
		}
		sum += x
	}
	fmt.Println("labeled chan loop", sum)
	c3 := gen(3)
	sum = 0
	for x := range c3 {
		c3 = nil // the range expression is evaluated once
		sum += x + 1
	}
	fmt.Println("reassigned", sum)
	c4 := gen(2)
	a := <-c4 + <-c4
	fmt.Println("recv expr", a, func() int { return <-gen(1) }())
	switch <-gen(1) {
	case 0:
		fmt.Println("switch recv")
	}
	errs := make(chan error, 1)
	select {
	case err := <-errs:
		fmt.Println("unexpected", err)
	default:
		fmt.Println("select default")
	}
	errs <- fmt.Errorf("e")
sel:
	select {
	case err := <-errs:
		fmt.Println("select recv", err)
		break sel
	}
	out := make(chan int, 1)
	select {
	case out <- <-gen(1):
		fmt.Println("select send", <-out)
	}
}

type obj struct{ name string }

func (o *obj) run(done chan<- string, suffix string) { done <- o.name + suffix }

func worker(done chan<- string, s string, n int64) { done <- fmt.Sprint(s, n) }
func variadic(done chan<- string, xs ...int)        { done <- fmt.Sprint(xs) }
func ptr(done chan<- string, p *int)                { done <- fmt.Sprint(p == nil) }

func goroutines() {
	done := make(chan string)
	s := "w"
	go worker(done, s, 1)
	s = "changed"
	fmt.Println("go f(a,b)", <-done)
	o := &obj{"first"}
	go o.run(done, "!")
	o = &obj{"second"}
	fmt.Println("go method", <-done, o.name)
	f := func() { done <- "local func value" }
	go f()
	f = nil
	fmt.Println(<-done)
	xs := []int{1, 2, 3}
	go variadic(done, xs...)
	fmt.Println("variadic", <-done)
	go ptr(done, nil)
	fmt.Println("nil arg", <-done)
	for i := 0; i < 3; i++ {
		go func(i int) { done <- fmt.Sprint("lit", i) }(i)
		fmt.Println(<-done)
	}
	go func() { done <- "plain" }()
	fmt.Println(<-done)
	if len(xs) == 3 {
		go worker(done, "in if", 2)
	} else {
		go worker(done, "in else", 3)
	}
	fmt.Println(<-done)
	switch {
	case true:
	lbl:
		go worker(done, "labeled in case", 4)
		if false {
			goto lbl
		}
	}
	fmt.Println(<-done)
}

func closes() (res string) {
	c := make(chan int, 1)
	d := make(chan int, 1)
	orig := d
	func() {
		defer close(c)
		defer close(d)
		d = nil // the operand of the deferred close was evaluated already
		c <- 1
	}()
	_, ok := <-c
	_, ok2 := <-c
	_, ok3 := <-orig
	e := make(chan int)
	func() {
		defer func() {
			close(e)
		}()
	}()
	_, ok4 := <-e
	return fmt.Sprint("closes ", ok, ok2, ok3, ok4)
}

func mapKeys() {
	v := reflect.ValueOf(map[string]int{"x": 1, "y": 2, "z": 3})
	var ks []string
	for _, k := range v.MapKeys() {
		ks = append(ks, k.String())
	}
	show("MapKeys", ks)
	fmt.Println("MapKeys len", len(reflect.ValueOf(map[int]bool{1: true, 2: false}).MapKeys()), len(v.MapKeys()[0].String()))
}

func main() {
	variants()
	labeled()
	mutate()
	typesOfMaps()
	capture()
	chans()
	goroutines()
	fmt.Println(closes())
	mapKeys()
}
`

// orderSrc prints the order in which keys are visited; it is only run instrumented.
const orderSrc = `package main

import (
	"fmt"
	"reflect"
)

type Key string

type P struct{ X, Y int }

func main() {
	for k := range map[string]int{"b": 1, "a": 2, "c": 3, "B": 4} {
		fmt.Print(k, "|")
	}
	fmt.Println()
	for k, v := range map[int]string{10: "x", 2: "y", -3: "z", 33: "w"} {
		fmt.Print(k, v, "|")
	}
	fmt.Println()
	for k := range map[Key]bool{"k2": true, "k1": true, "k3": false} {
		fmt.Print(k, "|")
	}
	fmt.Println()
	for k := range map[uint16]bool{300: true, 20: true, 1000: true} {
		fmt.Print(k, "|")
	}
	fmt.Println()
	for k := range map[float64]bool{2.5: true, -1: true, 10: true} {
		fmt.Print(k, "|")
	}
	fmt.Println()
	for k := range map[bool]int{true: 1, false: 0} {
		fmt.Print(k, "|")
	}
	fmt.Println()
	for k := range map[interface{}]int{"s": 1, 10: 2, 2: 3, true: 4, 1.5: 5, uint(7): 6, P{2, 1}: 7, P{1, 2}: 8} {
		fmt.Print(k, "|")
	}
	fmt.Println()
	for k := range map[P]int{{2, 1}: 1, {1, 9}: 2, {1, 10}: 3} {
		fmt.Print(k, "|")
	}
	fmt.Println()
	for _, k := range reflect.ValueOf(map[string]int{"m2": 1, "m1": 2, "m3": 3}).MapKeys() { // MARK:mapkeys
		fmt.Print(k, "|")
	}
	fmt.Println()
	for _, k := range reflect.ValueOf(map[interface{}]int{3: 1, 1: 2, 2: 3}).MapKeys() {
		fmt.Print(k, "|")
	}
	fmt.Println()

	// Keys inserted during the iteration are not visited; a key that is deleted
	// before it is reached is skipped.
	m := map[int]int{1: 1, 2: 2, 3: 3, 4: 4}
	for k := range m { // MARK:range
		m[k+100] = k
		if k == 2 || k == 3 {
			delete(m, 5-k) // 2 deletes 3, 3 deletes 2: whichever comes second is skipped
		}
		fmt.Print(k, "|")
	}
	fmt.Println(len(m))

	ch := make(chan int)
	done := make(chan bool, 1)
	go func() { // MARK:go
		defer close(ch) // MARK:deferclose
		ch <- 1 // MARK:send
	}()
	for range ch { // MARK:chanrange
	}
	select { // MARK:select
	case <-done:
	default:
	}
	done <- true
	<-done // MARK:recv
	close(done) // MARK:close
}
`

// modeSrc is added to the instrumented main packages: it installs hooks
// according to the environment variable ZZ_MODE.
const modeSrc = `package main

import (
	"fmt"
	"os"

	"example.com/m/zzsimhook"
)

func init() {
	switch os.Getenv("ZZ_MODE") {
	case "reverse":
		zzsimhook.OnKeys = func(site string, n int) []int {
			p := make([]int, n)
			for i := range p {
				p[i] = n - 1 - i
			}
			return p
		}
	case "bad":
		zzsimhook.OnKeys = func(site string, n int) []int { return make([]int, n) }
	case "native":
		zzsimhook.Native = true
	case "trace":
		zzsimhook.OnKeys = func(site string, n int) []int { fmt.Fprintln(os.Stderr, "keys", site, n); return nil }
		zzsimhook.OnEnter = func(site string) { fmt.Fprintln(os.Stderr, "enter", site) }
		zzsimhook.OnTick = func(site string) { fmt.Fprintln(os.Stderr, "tick", site) }
		zzsimhook.OnGo = func(site string, fn func()) { fmt.Fprintln(os.Stderr, "go", site); go fn() }
		zzsimhook.OnChanOp = func(site, kind string) { fmt.Fprintln(os.Stderr, "chanop", kind, site) }
	}
}
`

// unsupportedSrcs are programs that Run must refuse.
var unsupportedSrcs = map[string]string{
	"select with two communications": `package main
func main() {
	a, b := make(chan int), make(chan int)
	select {
	case <-a:
	case <-b:
	}
}`,
	"receive in loop condition": `package main
func main() {
	c := make(chan bool)
	for <-c {
	}
}`,
	"receive in else-if init": `package main
func main() {
	c := make(chan bool)
	if len(c) > 5 {
	} else if x := <-c; x {
	}
}`,
	"conditional receive": `package main
func main() {
	c := make(chan bool)
	_ = len(c) > 0 && <-c
}`,
	"send in for post": `package main
func main() {
	c := make(chan int, 10)
	for i := 0; i < 3; c <- i {
		i++
	}
}`,
	"MapKeys method value": `package main
import "reflect"
func main() {
	f := reflect.ValueOf(map[int]int{}).MapKeys
	_ = f
}`,
	"unexported type of another package": `package main
import "example.com/m/lib"
func main() {
	for _, v := range lib.Hidden() {
		_ = v
	}
}`,
	"type of a package that is not imported": `package main
import "example.com/m/lib2"
func main() {
	for k := range lib2.Things() {
		_ = k
	}
}`,
	"go with a builtin": `package main
func main() {
	c := make(chan int)
	go close(c)
}`,
	"reserved identifier": `package main
func main() {
	zzit1 := 0
	_ = zzit1
}`,
	"assignment with side effects": `package main
func idx() int { return 0 }
func main() {
	a := make([]string, 1)
	for a[idx()] = range map[string]int{} {
	}
}`,
}

const lib2Src = `package lib2

import "example.com/m/lib"

func Things() map[lib.ID]bool { return nil }
`
