// Package fp observes the internal object graph of a *ucfg.Config by
// reflection (reading unexported fields is allowed; only Interface() and Set
// are not). It needs no hook inside the library and, being generic, also
// covers fields a changed library may add (a memoisation slot, a cache).
package fp

import (
	"fmt"
	"reflect"
	"sort"
	"strconv"
	"strings"

	ucfg "github.com/elastic/go-ucfg"
)

type walker struct {
	buf      []byte
	seen     map[uintptr]int
	ids      map[string]int
	addrs    bool // emit real addresses (Fingerprint) or visit numbers (Shape)
	depth    int
	maxDepth int
}

func (w *walker) str(s string) { w.buf = append(w.buf, s...) }

func (w *walker) ref(kind string, p uintptr) (first bool) {
	n, ok := w.seen[p]
	if !ok {
		n = len(w.seen) + 1
		w.seen[p] = n
	}
	w.str(kind)
	if w.addrs {
		w.str("@")
		w.buf = strconv.AppendUint(w.buf, uint64(p), 16)
	} else {
		w.str("#")
		w.buf = strconv.AppendInt(w.buf, int64(n), 10)
	}
	return !ok
}

// parentRef emits the identity of a parent link without descending into it.
func (w *walker) parentRef(v reflect.Value) {
	if v.Kind() == reflect.Interface {
		if v.IsNil() {
			w.str("nil")
			return
		}
		v = v.Elem()
	}
	w.str("(" + v.Type().String() + ")")
	if v.Kind() == reflect.Struct && v.NumField() == 1 && v.Field(0).Kind() == reflect.Ptr {
		p := v.Field(0)
		if p.IsNil() {
			w.str("nil")
			return
		}
		w.ref("^", p.Pointer())
		return
	}
	if v.Kind() == reflect.Ptr && !v.IsNil() {
		w.ref("^", v.Pointer())
		return
	}
	w.str("?")
}

func (w *walker) walk(v reflect.Value) {
	if !v.IsValid() {
		w.str("<invalid>")
		return
	}
	w.depth++
	defer func() { w.depth-- }()
	if w.depth > w.maxDepth {
		w.str("<deep>")
		return
	}
	switch v.Kind() {
	case reflect.Ptr:
		if v.IsNil() {
			w.str("nil")
			return
		}
		if w.ref("&", v.Pointer()) {
			w.str("{")
			w.walk(v.Elem())
			w.str("}")
		}
	case reflect.Interface:
		if v.IsNil() {
			w.str("nil")
			return
		}
		e := v.Elem()
		w.str("(")
		w.str(e.Type().String())
		w.str(")")
		w.walk(e)
	case reflect.Struct:
		t := v.Type()
		w.str("{")
		for i := 0; i < v.NumField(); i++ {
			f := t.Field(i)
			w.str(f.Name)
			w.str(":")
			if f.Name == "parent" && t.Name() == "context" {
				// positional metadata: the identity of the parent, not its contents
				w.parentRef(v.Field(i))
			} else if f.Type.Kind() == reflect.String && f.Type.Name() == "cacheID" && !w.addrs {
				id := v.Field(i).String()
				n, ok := w.ids[id]
				if !ok {
					n = len(w.ids) + 1
					w.ids[id] = n
				}
				w.str("id#" + strconv.Itoa(n))
			} else {
				w.walk(v.Field(i))
			}
			w.str(";")
		}
		w.str("}")
	case reflect.Map:
		if v.IsNil() {
			w.str("nilmap")
			return
		}
		if !w.ref("map", v.Pointer()) {
			return
		}
		keys := v.MapKeys()
		sort.Slice(keys, func(i, j int) bool { return keyString(keys[i]) < keyString(keys[j]) })
		w.str("[")
		for _, k := range keys {
			w.str(keyString(k))
			w.str("=>")
			w.walk(v.MapIndex(k))
			w.str(",")
		}
		w.str("]")
	case reflect.Slice:
		if v.IsNil() {
			w.str("nilslice")
			return
		}
		if v.Len() > 0 || v.Cap() > 0 {
			w.ref("slice", v.Pointer())
		} else {
			w.str("slice0")
		}
		w.str("[")
		for i := 0; i < v.Len(); i++ {
			w.walk(v.Index(i))
			w.str(",")
		}
		w.str("]")
	case reflect.Array:
		w.str("[")
		for i := 0; i < v.Len(); i++ {
			w.walk(v.Index(i))
			w.str(",")
		}
		w.str("]")
	case reflect.String:
		w.buf = strconv.AppendQuote(w.buf, v.String())
	case reflect.Bool:
		w.buf = strconv.AppendBool(w.buf, v.Bool())
	case reflect.Int, reflect.Int8, reflect.Int16, reflect.Int32, reflect.Int64:
		w.buf = strconv.AppendInt(w.buf, v.Int(), 10)
	case reflect.Uint, reflect.Uint8, reflect.Uint16, reflect.Uint32, reflect.Uint64, reflect.Uintptr:
		w.buf = strconv.AppendUint(w.buf, v.Uint(), 10)
	case reflect.Float32, reflect.Float64:
		w.buf = strconv.AppendFloat(w.buf, v.Float(), 'g', -1, 64)
	case reflect.Func, reflect.Chan, reflect.UnsafePointer:
		if v.IsNil() {
			w.str("nil")
		} else {
			w.ref(v.Kind().String(), v.Pointer())
		}
	default:
		w.str("<" + v.Kind().String() + ">")
	}
}

func keyString(k reflect.Value) string {
	switch k.Kind() {
	case reflect.String:
		return k.String()
	case reflect.Int, reflect.Int8, reflect.Int16, reflect.Int32, reflect.Int64:
		return fmt.Sprintf("%020d", k.Int())
	case reflect.Uint, reflect.Uint8, reflect.Uint16, reflect.Uint32, reflect.Uint64:
		return fmt.Sprintf("%020d", k.Uint())
	}
	return fmt.Sprint(k)
}

func dump(c *ucfg.Config, addrs bool) []byte {
	w := &walker{seen: map[uintptr]int{}, ids: map[string]int{}, addrs: addrs, maxDepth: 400}
	w.walk(reflect.ValueOf(c))
	return w.buf
}

func hash(b []byte) uint64 {
	h := uint64(1469598103934665603)
	for _, c := range b {
		h = (h ^ uint64(c)) * 1099511628211
	}
	return h
}

// Fingerprint is a hash of the complete internal state reachable from c,
// including node addresses: equal fingerprints mean bit-identical state.
func Fingerprint(c *ucfg.Config) uint64 { return hash(dump(c, true)) }

// FingerprintDump is the text the fingerprint is computed from.
func FingerprintDump(c *ucfg.Config) string { return string(dump(c, true)) }

// Shape is Fingerprint with addresses replaced by first-visit numbers and
// dynamic-value ids by first-visit numbers: comparable across runs.
func Shape(c *ucfg.Config) uint64 { return hash(dump(c, false)) }

// ShapeDump is the text Shape is computed from.
func ShapeDump(c *ucfg.Config) string { return string(dump(c, false)) }

// DiffDump returns a short description of the first difference between two dumps.
func DiffDump(a, b string) string {
	n := len(a)
	if len(b) < n {
		n = len(b)
	}
	i := 0
	for i < n && a[i] == b[i] {
		i++
	}
	lo := i - 120
	if lo < 0 {
		lo = 0
	}
	cut := func(s string) string {
		hi := i + 120
		if hi > len(s) {
			hi = len(s)
		}
		if lo > len(s) {
			return ""
		}
		return s[lo:hi]
	}
	return fmt.Sprintf("first difference at byte %d:\n  before: …%s…\n  after:  …%s…", i, cut(a), cut(b))
}

// ---------------------------------------------------------------------------------------------
// Structural views that need to know the layout of Config. Field names are
// looked up by name; if the layout changed beyond recognition the functions
// return ErrLayout and the caller falls back to public observations.

// ErrLayout is returned when the internal layout is not the expected one.
type ErrLayout struct{ What string }

func (e *ErrLayout) Error() string { return "unexpected internal layout: " + e.What }

func fld(v reflect.Value, name string) reflect.Value {
	for v.Kind() == reflect.Ptr || v.Kind() == reflect.Interface {
		if v.IsNil() {
			panic(&ErrLayout{"nil while looking for " + name})
		}
		v = v.Elem()
	}
	if v.Kind() != reflect.Struct {
		panic(&ErrLayout{"not a struct while looking for " + name + ": " + v.Kind().String()})
	}
	f := v.FieldByName(name)
	if !f.IsValid() {
		panic(&ErrLayout{"no field " + name + " in " + v.Type().String()})
	}
	return f
}

// nodeInfo describes one value stored in a container.
type nodeInfo struct {
	val       reflect.Value // the interface-typed `value`
	isSub     bool
	cfgPtr    uintptr // for sub values: address of the *Config
	cfg       reflect.Value
	ctxParent uintptr // address of the *Config the stored ctx.parent points to (0 if nil / not a sub)
	ctxField  string
	kind      string
}

func inspect(val reflect.Value) nodeInfo {
	ni := nodeInfo{val: val}
	if val.Kind() == reflect.Interface {
		if val.IsNil() {
			ni.kind = "<nil-interface>"
			return ni
		}
		val = val.Elem()
	}
	ni.kind = val.Type().String()
	var ctx reflect.Value
	if val.Kind() == reflect.Struct && val.Type().Name() == "cfgSub" {
		ni.isSub = true
		c := fld(val, "c")
		if c.IsNil() {
			panic(&ErrLayout{"cfgSub with nil config"})
		}
		ni.cfgPtr = c.Pointer()
		ni.cfg = c
		ctx = fld(c, "ctx")
	} else {
		ctx = fld(val, "ctx")
	}
	ni.ctxField = fld(ctx, "field").String()
	p := fld(ctx, "parent")
	if !p.IsNil() {
		pe := p.Elem()
		if pe.Kind() == reflect.Struct && pe.Type().Name() == "cfgSub" {
			pc := fld(pe, "c")
			if !pc.IsNil() {
				ni.ctxParent = pc.Pointer()
			}
		} else {
			ni.ctxParent = ^uintptr(0) // parent is not a sub-config: never right
		}
	}
	return ni
}

// LinkError is one disagreement between where a node is stored and what its
// own positional metadata says.
type LinkError struct {
	Where string // path by which the node was reached
	What  string
}

// Links checks, for every node reachable from root, that its stored context
// (parent, field) names the container and key under which it is actually
// stored. It returns the disagreements (empty = in sync).
func Links(root *ucfg.Config) (errs []LinkError, err error) {
	defer func() {
		if p := recover(); p != nil {
			if le, ok := p.(*ErrLayout); ok {
				err = le
				return
			}
			panic(p)
		}
	}()
	seen := map[uintptr]bool{}
	var visit func(c reflect.Value, path string)
	visit = func(c reflect.Value, path string) {
		if seen[c.Pointer()] {
			errs = append(errs, LinkError{path, "node reachable twice (shared or cyclic structure)"})
			return
		}
		seen[c.Pointer()] = true
		me := c.Pointer()
		f := fld(c, "fields")
		if f.IsNil() {
			return
		}
		d := fld(f, "d")
		a := fld(f, "a")
		check := func(key string, val reflect.Value) {
			p := key
			if path != "" {
				p = path + "." + key
			}
			ni := inspect(val)
			if ni.kind == "<nil-interface>" {
				errs = append(errs, LinkError{p, "nil interface stored as a value"})
				return
			}
			if ni.ctxField != key {
				errs = append(errs, LinkError{p, fmt.Sprintf("stored under %q but its field is %q", key, ni.ctxField)})
			}
			if ni.ctxParent != me {
				errs = append(errs, LinkError{p, "its parent link does not point to the node that contains it"})
			}
			if ni.isSub {
				visit(ni.cfg, p)
			}
		}
		if d.Kind() == reflect.Map && !d.IsNil() {
			keys := d.MapKeys()
			sort.Slice(keys, func(i, j int) bool { return keys[i].String() < keys[j].String() })
			for _, k := range keys {
				check(k.String(), d.MapIndex(k))
			}
		}
		if a.Kind() == reflect.Slice {
			for i := 0; i < a.Len(); i++ {
				check(strconv.Itoa(i), a.Index(i))
			}
		}
	}
	visit(reflect.ValueOf(root), "")
	return errs, nil
}

// MutableNodes returns the addresses of every mutable object reachable from
// c: Config objects, their field tables, dictionaries, list backing stores and
// primitive value nodes. Metadata and expression trees are immutable by
// construction and excluded. Parent links are not followed.
func MutableNodes(c *ucfg.Config) (nodes map[uintptr]string, err error) {
	defer func() {
		if p := recover(); p != nil {
			if le, ok := p.(*ErrLayout); ok {
				err = le
				return
			}
			panic(p)
		}
	}()
	nodes = map[uintptr]string{}
	var visit func(c reflect.Value, path string)
	visit = func(c reflect.Value, path string) {
		if _, ok := nodes[c.Pointer()]; ok {
			return
		}
		nodes[c.Pointer()] = "config " + path
		f := fld(c, "fields")
		if f.IsNil() {
			return
		}
		nodes[f.Pointer()] = "fields of " + path
		d := fld(f, "d")
		a := fld(f, "a")
		one := func(key string, val reflect.Value) {
			p := key
			if path != "" {
				p = path + "." + key
			}
			if val.Kind() == reflect.Interface {
				if val.IsNil() {
					return
				}
				val = val.Elem()
			}
			if val.Kind() == reflect.Ptr {
				if !val.IsNil() {
					nodes[val.Pointer()] = "value " + p
				}
				return
			}
			if val.Kind() == reflect.Struct && val.Type().Name() == "cfgSub" {
				visit(fld(val, "c"), p)
			}
		}
		if d.Kind() == reflect.Map && !d.IsNil() {
			nodes[d.Pointer()] = "dict of " + path
			for _, k := range d.MapKeys() {
				one(k.String(), d.MapIndex(k))
			}
		}
		if a.Kind() == reflect.Slice && !a.IsNil() && a.Cap() > 0 {
			nodes[a.Pointer()] = "list of " + path
			for i := 0; i < a.Len(); i++ {
				one(strconv.Itoa(i), a.Index(i))
			}
		}
	}
	visit(reflect.ValueOf(c), "")
	return nodes, nil
}

// Shared returns a description of the mutable nodes two configs have in common.
func Shared(a, b *ucfg.Config) ([]string, error) {
	na, err := MutableNodes(a)
	if err != nil {
		return nil, err
	}
	nb, err := MutableNodes(b)
	if err != nil {
		return nil, err
	}
	var out []string
	for p, w := range na {
		if w2, ok := nb[p]; ok {
			out = append(out, w+" == "+w2)
		}
	}
	sort.Strings(out)
	return out, nil
}

// Describe renders link errors.
func Describe(errs []LinkError) string {
	var s []string
	for _, e := range errs {
		s = append(s, e.Where+": "+e.What)
	}
	return strings.Join(s, "; ")
}
