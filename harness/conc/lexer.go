//go:build go1.25

package conc

import (
	"fmt"
	"strings"
	"sync"
	"testing"
	"testing/synctest"

	ucfg "github.com/elastic/go-ucfg"
	"github.com/elastic/go-ucfg/zzsimhook"

	"harness/sim"
)

var lexAlphabet = []string{"${", "}", ":", ":+", ":?", "$", "$$", "$}", "a", "b.c", "x", "${a}", "${}", "${a:", "${:x}", "${${a}}", " "}

type lexTask struct {
	id     int
	gate   chan struct{}
	parked bool
	done   bool
	at     string
}

// lexSched orders every channel operation between the splice lexer goroutine
// and its parser: both park in front of each send / receive / close / select
// (rules R5 and R6), and the tape decides who proceeds.
type lexSched struct {
	mu    sync.Mutex
	tasks []*lexTask
	cur   map[*lexTask]bool
	byFn  int
}

// RunLexer is the E5 part of C07: one caller creating a config from strings of
// a grammar of splice expressions including every malformed shape, with the
// producer goroutine and the parser interleaved by the tape at every channel
// operation. The call must return the same outcome under every schedule, and
// afterwards no goroutine of the run may be left blocked (that is what the
// parser's drain-on-return is for).
func RunLexer(t *testing.T, r *sim.R) {
	tp := r.T
	zzsimhook.OnTick, zzsimhook.OnEnter, zzsimhook.OnKeys = nil, nil, nil
	n := 1 + tp.Choose(6, "len")
	var b strings.Builder
	for i := 0; i < n; i++ {
		b.WriteString(lexAlphabet[tp.Choose(len(lexAlphabet), "piece")])
	}
	str := b.String()
	in := map[string]interface{}{"a": "v", "s": str}
	opts := []ucfg.Option{ucfg.PathSep("."), ucfg.VarExp}
	r.Tracef("NewFrom({a: v, s: %q}, VarExp)", str)
	r.Fault("splice string under a tape-chosen lexer/parser schedule")
	outcome := func() string {
		c, err := ucfg.NewFrom(in, opts...)
		if err != nil {
			return "error: " + errStr(err)
		}
		s, err := c.String("s", -1, opts...)
		return fmt.Sprintf("%q %s", s, errStr(err))
	}
	// reference outcome: hooks inert. It runs in a bubble of its own and the bubble is left only
	// when every goroutine of the call has ended or is blocked for good: a lexer goroutine the
	// call leaks (judged by the scheduled pass below) must not still be on its way when the
	// scheduler's hooks are installed - it would reach them from outside their bubble, and
	// whether it does would depend on the machine's load, not on the tape.
	var ref string
	func() {
		defer func() { recover() }() // ("blocked goroutines remain": the leak of the reference call)
		synctest.Test(t, func(t *testing.T) {
			defer func() {
				if rec := recover(); rec != nil {
					ref = fmt.Sprintf("panic: %v", rec)
				}
			}()
			ref = outcome()
			synctest.Wait()
		})
	}()
	if strings.HasPrefix(ref, "panic: ") {
		r.FailD("op-completes", "NewFrom", map[string]string{"kind": "panic", "panic": ref, "string": str}, "NewFrom / String panicked: %s", ref)
	}
	r.Tracef("reference outcome (free schedule): %s", ref)
	r.StateOps += 2

	var got string
	var violation func()
	releases := 0
	func() {
		defer func() {
			if rec := recover(); rec != nil {
				msg := fmt.Sprint(rec)
				if strings.Contains(msg, "blocked goroutines remain") || strings.Contains(msg, "deadlock") {
					if violation == nil {
						violation = func() {
							r.FailD("no-leak", "NewFrom", map[string]string{"string": str}, "after the call returned a goroutine it started is blocked forever (leaked lexer): %s", msg)
						}
					}
					return
				}
				panic(rec)
			}
		}()
		synctest.Test(t, func(t *testing.T) {
			var mu sync.Mutex
			var tasks []*lexTask
			var running *lexTask // set by the scheduler on release; a task clears nothing
			park := func(tk *lexTask, at string) {
				mu.Lock()
				tk.parked, tk.at = true, at
				mu.Unlock()
				<-tk.gate
				mu.Lock()
				tk.parked = false
				mu.Unlock()
			}
			// goroutine-local identity: each task function captures its own *lexTask; the hook
			// identifies the caller by site partition: go-body sites belong to the newest lexer task,
			// all other sites to the main task.
			main := &lexTask{id: 0, gate: make(chan struct{})}
			tasks = append(tasks, main)
			lexers := map[string]*lexTask{}
			var newest *lexTask
			zzsimhook.OnGo = func(site string, fn func()) {
				mu.Lock()
				tk := &lexTask{id: len(tasks), gate: make(chan struct{})}
				tasks = append(tasks, tk)
				newest = tk
				lexers[site] = tk
				mu.Unlock()
				go func() {
					defer func() {
						mu.Lock()
						tk.done = true
						mu.Unlock()
					}()
					park(tk, "start")
					fn()
				}()
			}
			zzsimhook.OnChanOp = func(site, kind string) {
				mu.Lock()
				var tk *lexTask
				if goBody(site) {
					tk = newest
				} else {
					tk = main
				}
				mu.Unlock()
				if tk != nil {
					park(tk, kind+"@"+site)
				}
			}
			defer func() { zzsimhook.OnGo, zzsimhook.OnChanOp = nil, nil }()
			go func() {
				defer func() {
					if rec := recover(); rec != nil {
						got = fmt.Sprintf("panic: %v", rec)
					}
					mu.Lock()
					main.done = true
					mu.Unlock()
				}()
				park(main, "start")
				got = outcome()
			}()
			for {
				synctest.Wait()
				var cands []*lexTask
				for _, tk := range tasks {
					if !tk.done && tk.parked {
						cands = append(cands, tk)
					}
				}
				if len(cands) == 0 {
					break
				}
				next := cands[tp.Choose(len(cands), "release")]
				running = next
				releases++
				r.SchedHash = (r.SchedHash ^ uint64(next.id+1)) * 1099511628211
				r.Tracef("release task %d (%s)", next.id, next.at)
				if releases > 5000 {
					violation = func() {
						r.FailD("terminates", "NewFrom", nil, "more than 5000 channel operations for a string of %d pieces", n)
					}
					break
				}
				next.gate <- struct{}{}
			}
			_ = running
			mu.Lock()
			mainDone := main.done
			mu.Unlock()
			if !mainDone && violation == nil {
				violation = func() {
					r.FailD("no-deadlock", "NewFrom", map[string]string{"string": str}, "the call is blocked forever although no task is parked (lexer and parser wait for each other)")
				}
			}
		})
	}()
	if violation != nil {
		violation()
	}
	if strings.HasPrefix(got, "panic: ") {
		r.FailD("no-panic", "NewFrom", map[string]string{"string": str}, "NewFrom / String panicked under a tape-chosen lexer schedule: %s", got)
	}
	if got != ref {
		r.FailD("schedule-independent", "NewFrom", map[string]string{"string": str}, "the outcome depends on the lexer/parser schedule:\n   free schedule:  %s\n   this schedule:  %s", ref, got)
	}
}
