//go:build go1.25

package conc

import (
	"os"
	"strings"
	"testing"

	"harness/engines"
	"harness/sim"
	"harness/workerlib"
)

// TestWorker is the entry point of the E5 worker binary (go1.26.8 test -c):
// the worker protocol's arguments come in VSIM_ARGS.
func TestWorker(t *testing.T) {
	args := strings.Split(os.Getenv("VSIM_ARGS"), "\x1f")
	if os.Getenv("VSIM_ARGS") == "" {
		t.Skip("VSIM_ARGS not set")
	}
	race := os.Getenv("VSIM_E5_MODE") == "race"
	sim.NoHooks = race
	workerlib.Main(args,
		func(prop string) workerlib.Engine {
			switch prop {
			case "C07":
				return func(r *sim.R) { RunLexer(t, r) }
			case "C11":
				if race {
					return func(r *sim.R) { RunRace(t, r) }
				}
				return func(r *sim.R) { Run(t, r) }
			}
			return nil
		},
		func(id string) interface{} { return engines.RunProbe(id) })
}
