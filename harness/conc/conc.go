//go:build go1.25

// Package conc is engine E5: reader tasks on one shared config. In the
// serialized mode every task is a goroutine inside a testing/synctest bubble
// that parks at instrumented function entries chosen by the run's preemption
// plan; a scheduler goroutine releases exactly one parked task at a time
// (chosen by the tape) and uses synctest.Wait for quiescence, so one tape is
// one exactly repeatable interleaving. In the free-running mode the same
// workload runs truly in parallel under the race detector.
package conc

import (
	"bytes"
	"fmt"
	"runtime"
	"sort"
	"strconv"
	"strings"
	"sync"
	"testing"
	"testing/synctest"

	ucfg "github.com/elastic/go-ucfg"
	"github.com/elastic/go-ucfg/zzsimhook"

	"harness/fp"
	"harness/model"
	"harness/sim"
	"harness/varexp"
)

// Op is one read operation of a task.
type Op struct {
	Kind int
	Name string
}

const (
	opUnpack = iota
	opString
	opInt
	opChildUnpack
	opHas
	opCountField
	opGetFields
	opFlattened
	opMergeDirect
	opMergeInMap
	opMergeInSlice
	opUnpackTyped
	opPath
	opUnpackTwice
	opOtherGetters
	opMergeChildDotted
	opMergeFieldOpts
	opKinds
)

// Option values an application keeps in variables and hands to every call (and every goroutine).
var (
	fieldAppendL  = ucfg.FieldAppendValues("l")
	fieldReplaceO = ucfg.FieldReplaceValues("o")
	fieldPrependS = ucfg.FieldPrependValues("s.l")
)

var opNames = [...]string{"Unpack", "String", "Int", "Child+Unpack", "Has", "CountField", "GetFields", "FlattenedKeys", "Merge(shared)", "Merge({k: shared})", "Merge([shared])", "Unpack(typed)", "Child.Path", "Unpack(captured configs, twice)", "Bool/Uint/Float/IsDict/IsArray/PathOf", "Merge({k: shared.Child, k.zz: 1})", "Merge(shared, shared Field*Values options)"}

func (o Op) String() string { return opNames[o.Kind] + "(" + o.Name + ")" }

type typedTarget struct {
	A string       `config:"a"`
	S *ucfg.Config `config:"s"`
	O *ucfg.Config `config:"o"`
	N struct {
		X string `config:"x"`
	} `config:"nl"`
	NP *struct {
		X string `config:"x"`
	} `config:"nl"`
}

// capturing holds the config's own sections by reference after the first Unpack (a nil *Config
// field is filled with the sub-config itself); the list policies in the tags decide what a
// second Unpack into the same target does with them.
type capturing struct {
	S *ucfg.Config `config:"s,append"`
	L *ucfg.Config `config:"l,prepend"`
	O *ucfg.Config `config:"o,append"`
}

func canonCfg(c *ucfg.Config, opts []ucfg.Option) string {
	if c == nil {
		return "<nil>"
	}
	var m map[string]interface{}
	var l []interface{}
	if c.IsArray() && !c.IsDict() {
		if err := c.Unpack(&l, opts...); err != nil {
			return "error: " + err.Error()
		}
		return model.CanonValue(l)
	}
	if err := c.Unpack(&m, opts...); err != nil {
		return "error: " + err.Error()
	}
	return model.CanonValue(m)
}

func errStr(err error) string {
	if err == nil {
		return "<nil>"
	}
	s := err.Error()
	if i := strings.Index(s, "\nTrace:"); i >= 0 {
		s = s[:i]
	}
	return s
}

// exec performs one read and renders its complete result.
func exec(shared *ucfg.Config, op Op, opts []ucfg.Option) string {
	switch op.Kind {
	case opUnpack:
		return canonCfg(shared, opts)
	case opString:
		s, err := shared.String(op.Name, -1, opts...)
		return strconv.Quote(s) + " " + errStr(err)
	case opInt:
		i, err := shared.Int(op.Name, -1, opts...)
		return strconv.FormatInt(i, 10) + " " + errStr(err)
	case opChildUnpack:
		c, err := shared.Child(op.Name, -1, opts...)
		if err != nil {
			return "error: " + errStr(err)
		}
		return canonCfg(c, opts)
	case opHas:
		b, err := shared.Has(op.Name, -1, opts...)
		return fmt.Sprint(b) + " " + errStr(err)
	case opCountField:
		n, err := shared.CountField(op.Name, opts...)
		return fmt.Sprint(n) + " " + errStr(err)
	case opGetFields:
		f := shared.GetFields()
		sort.Strings(f)
		return strings.Join(f, ",")
	case opFlattened:
		return strings.Join(shared.FlattenedKeys(opts...), ",")
	case opPath:
		c, err := shared.Child(op.Name, -1, opts...)
		if err != nil {
			return "error: " + errStr(err)
		}
		p := "nil"
		if c.Parent() != nil {
			p = "parent"
		}
		return c.Path(".") + " " + p
	case opMergeDirect, opMergeInMap, opMergeInSlice:
		private := ucfg.New()
		var src interface{} = shared
		if op.Kind == opMergeDirect && len(op.Name)%2 == 0 {
			// the reader's own config already holds primitives under the shared config's names
			pre := map[string]interface{}{}
			for _, f := range shared.GetFields() {
				pre[f] = "mine"
			}
			private, _ = ucfg.NewFrom(pre)
		}
		switch op.Kind {
		case opMergeInMap:
			src = map[string]interface{}{"k": shared}
		case opMergeInSlice:
			private, _ = ucfg.NewFrom([]interface{}{})
			src = []interface{}{shared}
		}
		mopts := opts
		if len(op.Name)%3 != 1 {
			// the reader loads the shared config "from" somewhere: the option describes the merge, not the source
			mopts = append(append([]ucfg.Option{}, opts...), ucfg.MetaData(ucfg.Meta{Source: "reader"}))
		}
		if err := private.Merge(src, mopts...); err != nil {
			return "merge error: " + errStr(err)
		}
		res := canonCfg(private, opts) + " | source path " + strconv.Quote(shared.Path("."))
		// the copy is the reader's own: it writes below every container of it. If the
		// merge left anything shared with its source, the shared config changes.
		scribble(private, 0)
		return res
	case opUnpackTwice:
		// a reload: the same target is unpacked again from the same config
		var t capturing
		err1 := shared.Unpack(&t, opts...)
		first := fmt.Sprintf("%s %s %s %s", canonCfg(t.S, opts), canonCfg(t.L, opts), canonCfg(t.O, opts), errStr(err1))
		err2 := shared.Unpack(&t, opts...)
		return first + " | " + fmt.Sprintf("%s %s %s %s", canonCfg(t.S, opts), canonCfg(t.L, opts), canonCfg(t.O, opts), errStr(err2))
	case opMergeChildDotted:
		// a section of the shared config embedded in the input, next to a dotted key below it
		var child *ucfg.Config
		var err error
		for _, f := range shared.GetFields() {
			if c, cerr := shared.Child(f, -1, opts...); cerr == nil && c != nil && c.IsDict() {
				child = c
				break
			}
		}
		if child == nil {
			return "no section"
		}
		before := canonCfg(child, opts)
		private := ucfg.New()
		mopts := append(append([]ucfg.Option{}, opts...), ucfg.PathSep("."))
		err = private.Merge(map[string]interface{}{"k": child, "k.zz": uint64(1)}, mopts...)
		res := canonCfg(private, opts) + " " + errStr(err) + " | section " + before + " -> " + canonCfg(child, opts)
		scribble(private, 0)
		return res
	case opMergeFieldOpts:
		// the reader's own config holds a list and an object under names of the shared config;
		// the per-field policies are Option values shared by all readers
		pre := map[string]interface{}{"l": []interface{}{"m1", "m2", "m3"}, "o": map[string]interface{}{"mine": uint64(1)}, "s": map[string]interface{}{"l": []interface{}{"m"}}}
		private, _ := ucfg.NewFrom(pre)
		mopts := append([]ucfg.Option{}, opts...)
		switch len(op.Name) % 3 {
		case 0:
			mopts = append(mopts, fieldAppendL)
		case 1:
			mopts = append(mopts, fieldAppendL, fieldReplaceO)
		default:
			mopts = append(mopts, fieldReplaceO, fieldPrependS, fieldAppendL)
		}
		err := private.Merge(shared, mopts...)
		return canonCfg(private, opts) + " " + errStr(err)
	case opOtherGetters:
		b, e1 := shared.Bool(op.Name, -1, opts...)
		u, e2 := shared.Uint(op.Name, -1, opts...)
		f, e3 := shared.Float(op.Name, -1, opts...)
		return fmt.Sprint(b, errStr(e1), u, errStr(e2), f, errStr(e3), shared.IsDict(), shared.IsArray(), shared.PathOf(op.Name, "."))
	case opUnpackTyped:
		var t typedTarget
		err := shared.Unpack(&t, opts...)
		return fmt.Sprintf("%q %s %s %q %v %s", t.A, canonCfg(t.S, opts), canonCfg(t.O, opts), t.N.X, t.NP == nil, errStr(err))
	}
	return "?"
}

// scribble writes into every container reachable in a reader's private config.
func scribble(c *ucfg.Config, depth int) {
	if c == nil || depth > 4 {
		return
	}
	for _, name := range c.GetFields() {
		if ch, err := c.Child(name, -1); err == nil {
			scribble(ch, depth+1)
		}
	}
	if n, _ := c.CountField(""); c.IsArray() && !c.IsDict() {
		for i := 0; i < n && i < 4; i++ {
			if ch, err := c.Child("", i); err == nil {
				scribble(ch, depth+1)
			}
		}
		c.SetString("", n, "scribble")
	} else {
		c.SetString("zzscribble", -1, "scribble")
	}
}

// ---------------------------------------------------------------------------------------------
// The serialized scheduler.

type task struct {
	id      int
	gid     uint64
	ops     []Op
	opts    []ucfg.Option
	results []string
	gate    chan struct{}
	parked  bool
	done    bool
	steps   int
	preempt map[int]bool
	panicV  interface{}
}

type scheduler struct {
	current *task // the one task that is running (released last)
	mu      sync.Mutex
	byGid   map[uint64]*task
	tasks   []*task
	active  bool
}

// goBody tells whether a site lies inside a function literal started by a go
// statement, i.e. is only ever executed by a library-owned goroutine (the
// splice lexer). The partition is static, so no goroutine identity is needed:
// every other hook call comes from the one task the scheduler released.
var goBodyCache sync.Map

func goBody(site string) bool {
	if v, ok := goBodyCache.Load(site); ok {
		return v.(bool)
	}
	in := false
	if i := strings.LastIndexByte(site, ':'); i > 0 {
		line, _ := strconv.Atoi(site[i+1:])
		for _, g := range zzsimhook.GoBodyRanges {
			if g.File == site[:i] && line >= g.From && line <= g.To {
				in = true
			}
		}
	}
	goBodyCache.Store(site, in)
	return in
}

func goid() uint64 {
	var buf [64]byte
	n := runtime.Stack(buf[:], false)
	// "goroutine 123 [running]:"
	b := buf[10:n]
	i := bytes.IndexByte(b, ' ')
	id, _ := strconv.ParseUint(string(b[:i]), 10, 64)
	return id
}

func (s *scheduler) taskOfCaller() *task {
	g := goid()
	s.mu.Lock()
	t := s.byGid[g]
	s.mu.Unlock()
	return t
}

func (s *scheduler) onEnter(site string) {
	if !s.active || goBody(site) {
		return // (a library-owned goroutine, the lexer, is private to one call and not a task)
	}
	t := s.current
	if t == nil {
		return
	}
	t.steps++
	if t.preempt[t.steps] {
		s.park(t)
	}
}

func (s *scheduler) park(t *task) {
	s.mu.Lock()
	t.parked = true
	s.mu.Unlock()
	<-t.gate
	s.mu.Lock()
	t.parked = false
	s.mu.Unlock()
}

// Run executes one E5 run inside a synctest bubble.
func Run(t *testing.T, r *sim.R) {
	tp := r.T
	r.Order = sim.OrderSorted // enumeration order is fixed: the schedule studied here is the task interleaving
	// library-owned goroutines (lexers) run beside their parent: the run context's own
	// step counters are not goroutine-safe and are not used in this engine
	zzsimhook.OnTick = nil
	zzsimhook.OnEnter = nil
	zzsimhook.OnKeys = nil
	w := varexp.NewShared(r)
	w.Quiet()
	shared := w.Root()
	names := w.Names()
	if len(names) == 0 {
		return
	}
	ntasks := 2 + tp.Choose(3, "n-tasks")
	var tasks []*task
	for i := 0; i < ntasks; i++ {
		tk := &task{id: i, opts: w.TaskOpts(i), preempt: map[int]bool{}}
		nops := 1 + tp.Choose(3, "n-ops")
		for j := 0; j < nops; j++ {
			k := tp.Weighted([]int{4, 3, 1, 2, 1, 1, 1, 2, 2, 2, 2, 2, 1, 2, 1, 2, 3}, "op-kind")
			tk.ops = append(tk.ops, Op{Kind: k, Name: names[tp.Choose(len(names), "op-name")]})
		}
		tasks = append(tasks, tk)
	}
	r.Tracef("shared = %s", w.Describe())

	// ---- solo pass: every task alone; sequential purity (fingerprint unchanged)
	initial := fp.Fingerprint(shared)
	var initialDump string
	if r.Trace {
		initialDump = fp.FingerprintDump(shared)
	}
	counter := &scheduler{byGid: map[uint64]*task{}}
	solo := make([][]string, ntasks)
	soloSteps := make([]int, ntasks)
	for i, tk := range tasks {
		steps := 0
		zzsimhook.OnEnter = func(site string) {
			if !goBody(site) {
				steps++
			}
		}
		for _, op := range tk.ops {
			var res string
			r.MustComplete(op.String(), func() { res = exec(shared, op, tk.opts) })
			solo[i] = append(solo[i], res)
			r.Tracef("solo task %d: %s = %s", i, op, res)
		}
		zzsimhook.OnEnter = nil
		soloSteps[i] = steps
		if now := fp.Fingerprint(shared); now != initial {
			d := ""
			if r.Trace {
				d = "\n" + fp.DiffDump(initialDump, fp.FingerprintDump(shared))
			}
			r.FailD("read-pure", "solo", map[string]string{"task": strconv.Itoa(i)}, "the reads of task %d, run alone, changed the internal state of the shared config%s", i, d)
		}
	}
	_ = counter
	r.StateOps += 2

	// ---- preemption plan: at most P preemptions in total, at drawn step indices of drawn tasks
	p := 1 + tp.Choose(4, "preemptions")
	for k := 0; k < p; k++ {
		i := tp.Choose(ntasks, "preempt-task")
		if soloSteps[i] > 1 {
			tasks[i].preempt[1+tp.Choose(soloSteps[i]-1, "preempt-step")] = true
		}
	}

	// ---- serialized pass
	s := &scheduler{byGid: map[uint64]*task{}, tasks: tasks}
	var schedHash uint64 = 1469598103934665603
	var violation func()
	func() {
		defer func() {
			if rec := recover(); rec != nil {
				msg := fmt.Sprint(rec)
				if strings.Contains(msg, "blocked goroutines remain") || strings.Contains(msg, "deadlock") {
					if violation != nil {
						return
					}
					violation = func() {
						r.FailD("no-leak", "interleaved", nil, "after all readers returned, goroutines of the run are still blocked forever: %s", msg)
					}
					return
				}
				panic(rec)
			}
		}()
		synctest.Test(t, func(t *testing.T) {
			zzsimhook.OnEnter = s.onEnter
			defer func() { zzsimhook.OnEnter = nil }()
			for _, tk := range tasks {
				tk := tk
				tk.gate = make(chan struct{})
				tk.results = nil
				started := make(chan struct{})
				go func() {
					s.mu.Lock()
					tk.gid = goid()
					s.byGid[tk.gid] = tk
					s.mu.Unlock()
					close(started)
					defer func() {
						if rec := recover(); rec != nil {
							tk.panicV = rec
						}
						s.mu.Lock()
						tk.done = true
						s.mu.Unlock()
					}()
					s.park(tk) // wait for the first release
					for _, op := range tk.ops {
						tk.results = append(tk.results, exec(shared, op, tk.opts))
					}
				}()
				<-started
			}
			s.active = true
			for {
				synctest.Wait()
				// invariant at every switch: no read has written shared state
				if now := fp.Fingerprint(shared); now != initial && violation == nil {
					d := ""
					if r.Trace {
						d = "\n" + fp.DiffDump(initialDump, fp.FingerprintDump(shared))
					}
					violation = func() {
						r.FailD("read-pure", "interleaved", nil, "while readers were in flight the internal state of the shared config differed from its initial state%s", d)
					}
				}
				var cands []*task
				alive := 0
				for _, tk := range tasks {
					if !tk.done {
						alive++
						if tk.parked {
							cands = append(cands, tk)
						}
					}
				}
				if len(cands) == 0 {
					if alive > 0 && violation == nil {
						violation = func() {
							r.FailD("no-deadlock", "interleaved", nil, "%d reader(s) are blocked forever although no task is parked", alive)
						}
					}
					break
				}
				next := cands[tp.Choose(len(cands), "release")]
				schedHash = (schedHash ^ uint64(next.id+1)) * 1099511628211
				schedHash = (schedHash ^ uint64(next.steps)) * 1099511628211
				r.Tracef("release task %d (at its step %d)", next.id, next.steps)
				if next.steps > 0 {
					r.Fault("reader preempted inside a read")
				}
				s.current = next
				next.gate <- struct{}{}
			}
			s.active = false
		})
	}()
	r.SchedHash = schedHash
	if violation != nil {
		violation()
	}
	for i, tk := range tasks {
		if tk.panicV != nil {
			r.FailD("op-completes", "interleaved", map[string]string{"kind": "panic"}, "task %d panicked while interleaved with other readers: %v", i, tk.panicV)
		}
		if len(tk.results) != len(solo[i]) {
			r.FailD("same-as-alone", "interleaved", nil, "task %d finished %d of %d reads", i, len(tk.results), len(solo[i]))
		}
		for j := range tk.results {
			if tk.results[j] != solo[i][j] {
				r.FailD("same-as-alone", "interleaved", map[string]string{"op": tk.ops[j].String()},
					"task %d, %s: interleaved with other readers it returned\n   %s\nrunning alone it returns\n   %s", i, tk.ops[j], tk.results[j], solo[i][j])
			}
		}
	}
	if now := fp.Fingerprint(shared); now != initial {
		r.FailD("read-pure", "interleaved", nil, "after the interleaved reads the internal state of the shared config differs from its initial state")
	}
}

// RunRace executes the same workload with all tasks released together, truly
// in parallel; the binary is built with -race and GORACE=halt_on_error=1, so
// a data race kills the process (exit code 66), which the driver attributes
// to the run and reports with the race report.
func RunRace(t *testing.T, r *sim.R) {
	tp := r.T
	r.Order = sim.OrderSorted
	// no simulator hook is attached in this mode: what runs is the library alone,
	// so every report of the race detector is about the library
	sim.Detach()
	w := varexp.NewShared(r)
	w.Quiet()
	shared := w.Root()
	names := w.Names()
	if len(names) == 0 {
		return
	}
	ntasks := 2 + tp.Choose(3, "n-tasks")
	type rt struct {
		ops  []Op
		opts []ucfg.Option
	}
	var tasks []rt
	for i := 0; i < ntasks; i++ {
		tk := rt{opts: w.TaskOpts(i)}
		nops := 1 + tp.Choose(3, "n-ops")
		for j := 0; j < nops; j++ {
			k := tp.Weighted([]int{4, 3, 1, 2, 1, 1, 1, 2, 2, 2, 2, 2, 1, 2, 1, 2, 3}, "op-kind")
			tk.ops = append(tk.ops, Op{Kind: k, Name: names[tp.Choose(len(names), "op-name")]})
		}
		tasks = append(tasks, tk)
	}
	r.Tracef("shared = %s", w.Describe())
	solo := make([][]string, ntasks)
	for i, tk := range tasks {
		for _, op := range tk.ops {
			solo[i] = append(solo[i], exec(shared, op, tk.opts))
			r.Tracef("solo task %d: %s", i, op)
		}
	}
	r.StateOps += 2
	for rep := 0; rep < 3; rep++ {
		var wg sync.WaitGroup
		start := make(chan struct{})
		results := make([][]string, ntasks)
		for i := range tasks {
			i := i
			wg.Add(1)
			go func() {
				defer wg.Done()
				<-start
				for _, op := range tasks[i].ops {
					results[i] = append(results[i], exec(shared, op, tasks[i].opts))
				}
			}()
		}
		close(start)
		wg.Wait()
		r.Fault("readers released together (free-running)")
		for i := range tasks {
			for j := range results[i] {
				if results[i][j] != solo[i][j] {
					r.FailD("same-as-alone", "free-running", map[string]string{"op": tasks[i].ops[j].String()},
						"task %d, %s: in parallel with other readers it returned\n   %s\nrunning alone it returns\n   %s", i, tasks[i].ops[j], results[i][j], solo[i][j])
				}
			}
		}
	}
}
