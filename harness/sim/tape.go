// Package sim holds the simulator core shared by all engines: the choice tape
// (the single source of every decision of a run), the event log, the
// violation record, statistics and the known-findings switches.
package sim

import (
	"encoding/binary"
	"fmt"
	"hash/fnv"
	"os"
)

// splitmix64 is the only pseudo-random generator of the simulator.
type splitmix64 struct{ s uint64 }

func (r *splitmix64) next() uint64 {
	r.s += 0x9e3779b97f4a7c15
	z := r.s
	z = (z ^ (z >> 30)) * 0xbf58476d1ce4e5b9
	z = (z ^ (z >> 27)) * 0x94d049bb133111eb
	return z ^ (z >> 31)
}

// RunSeed derives the per-run stream seed from (VERIF_SEED, engine/property, run index).
func RunSeed(verifSeed int64, prop string, run int) uint64 {
	h := fnv.New64a()
	fmt.Fprintf(h, "%d|%s|%d", verifSeed, prop, run)
	return h.Sum64()
}

// Choice is one recorded draw.
type Choice struct {
	Label string
	N     int
	V     int
}

// Tape is a sequence of non-negative integers that decides everything in a
// run. Entries beyond the given prefix come from the run's PRNG stream (search
// mode) or are zero (replay / shrink mode). 0 is always the simplest choice.
type Tape struct {
	pre  []int
	pos  int
	rng  *splitmix64
	Used []int // reduced values actually drawn, in order (this is the replayable tape)
	Log  []Choice
	keep bool // keep Log (labels) — only in trace mode
	h    uint64
	Sink *os.File // optional: every draw is written through immediately (crash attribution)
}

// NewSearchTape returns a tape that is extended from the PRNG stream.
func NewSearchTape(seed uint64) *Tape {
	return &Tape{rng: &splitmix64{s: seed}, h: 1469598103934665603}
}

// NewReplayTape returns a tape with a fixed prefix, extended with zeros.
func NewReplayTape(pre []int, keepLog bool) *Tape {
	return &Tape{pre: pre, keep: keepLog, h: 1469598103934665603}
}

// KeepLog switches recording of labelled choices on.
func (t *Tape) KeepLog() { t.keep = true }

// Choose returns a value in [0,n). n<=1 draws nothing.
func (t *Tape) Choose(n int, label string) int {
	if n <= 1 {
		return 0
	}
	var v int
	switch {
	case t.pos < len(t.pre):
		v = t.pre[t.pos] % n
		if v < 0 {
			v = -v
		}
	case t.rng != nil:
		v = int(t.rng.next() % uint64(n))
	default:
		v = 0
	}
	t.pos++
	t.Used = append(t.Used, v)
	if t.Sink != nil {
		var b [4]byte
		binary.LittleEndian.PutUint32(b[:], uint32(v))
		t.Sink.Write(b[:])
	}
	if t.keep {
		t.Log = append(t.Log, Choice{label, n, v})
	}
	t.h = (t.h ^ uint64(v+1)) * 1099511628211
	t.h = (t.h ^ uint64(n)) * 1099511628211
	return v
}

// Bool draws one bit; false is the simple choice.
func (t *Tape) Bool(label string) bool { return t.Choose(2, label) == 1 }

// Chance returns true with probability num/den (false = simple choice).
func (t *Tape) Chance(num, den int, label string) bool {
	return t.Choose(den, label) >= den-num
}

// Weighted picks an index according to weights; index of the first positive
// weight is the simple choice.
func (t *Tape) Weighted(w []int, label string) int {
	sum := 0
	for _, x := range w {
		sum += x
	}
	if sum <= 0 {
		return 0
	}
	v := t.Choose(sum, label)
	for i, x := range w {
		if v < x {
			return i
		}
		v -= x
	}
	return len(w) - 1
}

// Perm draws a permutation of 0..n-1 for an enumeration site: one draw picks
// the family {sorted, reversed, rotate, shuffle}; n<=1 draws nothing. A nil
// result means canonical (sorted) order.
func (t *Tape) Perm(n int, label string) []int {
	if n <= 1 {
		return nil
	}
	switch t.Choose(4, label) {
	case 0:
		return nil
	case 1:
		p := make([]int, n)
		for i := range p {
			p[i] = n - 1 - i
		}
		return p
	case 2:
		r := 1 + t.Choose(n-1, label+"/rot")
		p := make([]int, n)
		for i := range p {
			p[i] = (i + r) % n
		}
		return p
	default:
		p := make([]int, n)
		for i := range p {
			p[i] = i
		}
		for i := n - 1; i > 0; i-- {
			j := t.Choose(i+1, label+"/fy")
			// j==0 would always move the first element; make 0 the identity move
			j = i - j
			p[i], p[j] = p[j], p[i]
		}
		return p
	}
}

// Hash is a running hash of all choices drawn so far (identifies the run's decisions).
func (t *Tape) Hash() uint64 { return t.h }

// Pos is the number of draws so far.
func (t *Tape) Pos() int { return t.pos }
