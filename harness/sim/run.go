package sim

import (
	"fmt"
	"os"
	"runtime/debug"
	"strconv"
	"strings"
	"time"

	"github.com/elastic/go-ucfg/zzsimhook"
)

// Violation is the first failed oracle of a run.
type Violation struct {
	Property string            `json:"property"`
	Oracle   string            `json:"oracle"`
	Op       string            `json:"op"`
	Step     int               `json:"step"`
	Message  string            `json:"message"`
	Detail   map[string]string `json:"detail,omitempty"`
}

// Class identifies "the same violation" for shrinking and de-duplication.
func (v *Violation) Class() string { return v.Property + "/" + v.Oracle + "/" + v.Op }

type stopRun struct{}
type budgetExceeded struct{ site string }

// StepBudget is the per-operation bound on hook events (function entries +
// loop iterations). It is a budget of the simulator (bounded liveness), far
// above the largest legitimate operation the generators can produce; the
// largest observed value is reported in the evidence.
const StepBudget = 300000

// WallBudget is a second, wall-clock trigger for the same verdict: an
// operation whose loop iterations are each very expensive (a loop that
// allocates ever larger objects) would need hours to reach StepBudget. A
// legitimate operation takes well under a millisecond, so the margin is four
// orders of magnitude; the clock is read once per 256 hook events.
const WallBudget = 8 * time.Second

// Order policies for map enumeration (the schedule of the single-task engines).
const (
	OrderSorted = iota
	OrderReversed
	OrderTape
)

// R is the context of one simulated run.
type R struct {
	Prop  string
	Tier  string
	T     *Tape
	Trace bool
	Steps []string
	V     *Violation

	Foreign map[string]int // observations that belong to another property
	Faults  map[string]int // fault kinds that actually fired
	Probes  map[string]int // rare conditions reached
	Avoid   map[string]bool

	StateHashes []uint64
	SchedHash   uint64
	Order       int
	ForcePerm   func(site string, n int) []int // E4: externally imposed order

	StateOps   int    // state-changing operations executed
	Logical    int64  // hook events in the whole run (logical time)
	opSteps    int64  // hook events in the current operation
	budgetAt   string // where the current operation exceeded its budget first
	opStart    time.Time
	MaxOpSteps int64
	inOp       bool
	step       int
	Goroutines int
}

// NewR creates a run context and attaches the hooks.
func NewR(prop, tier string, t *Tape, trace bool) *R {
	r := &R{Prop: prop, Tier: tier, T: t, Trace: trace,
		Foreign: map[string]int{}, Faults: map[string]int{}, Probes: map[string]int{}, Avoid: map[string]bool{},
		SchedHash: 1469598103934665603}
	if trace {
		t.KeepLog()
	}
	return r
}

// NoHooks: never touch the hook variables (free-running mode under the race
// detector, where library-owned goroutines of an earlier operation may still
// be reading them).
var NoHooks bool

// Attach installs this run's handlers into the instrumented library.
func (r *R) Attach() {
	if NoHooks {
		return
	}
	zzsimhook.Native = false
	zzsimhook.OnKeys = r.onKeys
	zzsimhook.OnEnter = r.onStep
	zzsimhook.OnTick = r.onStep
	zzsimhook.OnGo = nil
	zzsimhook.OnChanOp = nil
}

// Detach removes all handlers.
func Detach() {
	if NoHooks {
		return
	}
	zzsimhook.OnKeys = nil
	zzsimhook.OnEnter = nil
	zzsimhook.OnTick = nil
	zzsimhook.OnGo = nil
	zzsimhook.OnChanOp = nil
}

func (r *R) onKeys(site string, n int) []int {
	var p []int
	switch {
	case r.ForcePerm != nil:
		p = r.ForcePerm(site, n)
	case r.Order == OrderSorted:
		p = nil
	case r.Order == OrderReversed:
		p = make([]int, n)
		for i := range p {
			p[i] = n - 1 - i
		}
	default:
		p = r.T.Perm(n, site)
	}
	h := r.SchedHash
	for i := 0; i < len(site); i++ {
		h = (h ^ uint64(site[i])) * 1099511628211
	}
	h = (h ^ uint64(n)) * 1099511628211
	for _, x := range p {
		h = (h ^ uint64(x+1)) * 1099511628211
	}
	r.SchedHash = h
	return p
}

func (r *R) onStep(site string) {
	r.Logical++
	if r.inOp {
		r.opSteps++
		if (r.opSteps > StepBudget || r.opSteps&255 == 0) && inGoBody(site) {
			// a site inside a goroutine the library started (the splice lexer): a panic raised
			// there cannot be recovered by the operation's caller and would kill the process.
			// The operation's own goroutine raises it at its next event.
			return
		}
		if r.opSteps > StepBudget {
			// The panic unwinds through the library's deferred closures, which are hooked too:
			// re-raising in each of them makes the unwinding of a deep recursion quadratic.
			// Raise once, then again only every 4096 events (in case something recovered and goes on).
			if over := r.opSteps - StepBudget; over == 1 || over&4095 == 0 {
				if r.budgetAt == "" {
					r.budgetAt = site
				}
				panic(budgetExceeded{r.budgetAt})
			}
			return
		}
		if r.opSteps&255 == 0 && time.Since(r.opStart) > WallBudget {
			panic(budgetExceeded{site + " (wall-clock trigger)"})
		}
	}
}

// inGoBody: does the site lie inside a function literal started by a go statement of the
// library (static partition computed by the instrumenter)?
func inGoBody(site string) bool {
	i := strings.LastIndexByte(site, ':')
	if i <= 0 {
		return false
	}
	line, _ := strconv.Atoi(site[i+1:])
	for _, g := range zzsimhook.GoBodyRanges {
		if g.File == site[:i] && line >= g.From && line <= g.To {
			return true
		}
	}
	return false
}

// StepNo is the index of the current step.
func (r *R) StepNo() int { return r.step }

// NextStep starts a new step of the run's history.
func (r *R) NextStep() { r.step++ }

// Tracef appends a line to the human-readable trace (replay mode only).
func (r *R) Tracef(format string, a ...interface{}) {
	if r.Trace {
		l := fmt.Sprintf("[%d] ", r.step) + fmt.Sprintf(format, a...)
		r.Steps = append(r.Steps, l)
		if TraceToStderr {
			fmt.Fprintln(os.Stderr, "TRACE "+l)
		}
	}
}

// TraceToStderr mirrors trace lines to stderr as they are produced, so that a
// run that kills the process still leaves its history behind.
var TraceToStderr bool

// Fault counts a fault kind that actually fired.
func (r *R) Fault(kind string) { r.Faults[kind]++ }

// Probe counts a rare condition that was reached.
func (r *R) Probe(name string) { r.Probes[name]++ }

// Note records an observation that belongs to another property (never changes the verdict).
func (r *R) Note(prop, what string) { r.Foreign[prop+": "+what]++ }

// State records the hash of the canonical model state after a step.
func (r *R) State(h uint64) { r.StateHashes = append(r.StateHashes, h) }

// Fail records the violation and unwinds the run.
func (r *R) Fail(oracle, op, format string, a ...interface{}) {
	r.FailD(oracle, op, nil, format, a...)
}

// FailD is Fail with structured detail for known-finding matchers.
func (r *R) FailD(oracle, op string, detail map[string]string, format string, a ...interface{}) {
	if r.V == nil {
		r.V = &Violation{Property: r.Prop, Oracle: oracle, Op: op, Step: r.step, Message: fmt.Sprintf(format, a...), Detail: detail}
		r.Tracef("VIOLATION %s/%s: %s", oracle, op, r.V.Message)
	}
	panic(stopRun{})
}

// Outcome of a library call made through Call.
type Outcome struct {
	Panic    interface{}
	Stack    string
	Budget   bool
	BudgetAt string
	Steps    int64
}

// Call executes one library operation under the panic monitor and the step
// budget. It never lets a library panic escape; the engine decides what the
// outcome means for its property.
func (r *R) Call(fn func()) (out Outcome) {
	r.inOp = true
	r.opSteps = 0
	r.budgetAt = ""
	r.opStart = time.Now()
	defer func() {
		r.inOp = false
		out.Steps = r.opSteps
		if r.opSteps > r.MaxOpSteps {
			r.MaxOpSteps = r.opSteps
		}
		if p := recover(); p != nil {
			switch x := p.(type) {
			case stopRun:
				panic(p)
			case budgetExceeded:
				out.Budget = true
				out.BudgetAt = x.site
			default:
				out.Panic = p
				out.Stack = trimStack(string(debug.Stack()))
			}
		}
	}()
	fn()
	return
}

// MustComplete is Call plus the rule of DESIGN section 8: inside the check of
// property X an operation that panics or exceeds the step budget has failed to
// produce the result X's oracle expects.
func (r *R) MustComplete(op string, fn func()) {
	out := r.Call(fn)
	if out.Panic != nil {
		r.FailD("op-completes", op, map[string]string{"kind": "panic", "panic": fmt.Sprint(out.Panic)}, "%s panicked: %v\n%s", op, out.Panic, out.Stack)
	}
	if out.Budget {
		r.FailD("op-completes", op, map[string]string{"kind": "budget"}, "%s exceeded the step budget of %d hook events (non-termination) at %s", op, StepBudget, out.BudgetAt)
	}
}

func trimStack(s string) string {
	lines := strings.Split(s, "\n")
	var keep []string
	for i := 0; i < len(lines); i++ {
		l := lines[i]
		if strings.Contains(l, "go-ucfg") || strings.Contains(l, "harness/") {
			keep = append(keep, strings.TrimSpace(l))
		}
		if len(keep) >= 16 {
			break
		}
	}
	return strings.Join(keep, "\n")
}

// Execute runs body under the run's unwinding protocol and returns after the
// run finished or the first violation was recorded.
func (r *R) Execute(body func()) {
	r.Attach()
	defer Detach()
	defer func() {
		if p := recover(); p != nil {
			if _, ok := p.(stopRun); ok {
				return
			}
			// a panic in harness code is an infrastructure error, never a verdict
			fmt.Fprintf(os.Stderr, "HARNESS-PANIC prop=%s step=%d: %v\n%s\n", r.Prop, r.step, p, debug.Stack())
			os.Exit(3)
		}
	}()
	body()
}
