// Command worker executes simulated runs for one property. It is built against
// an instrumented scratch copy of the repository and driven by /verif/bin/vsim.
package main

import (
	"os"

	"harness/engines"
	"harness/workerlib"
)

func main() {
	workerlib.Main(os.Args[1:],
		func(prop string) workerlib.Engine {
			if e := engines.Lookup(prop); e != nil {
				return workerlib.Engine(e)
			}
			return nil
		},
		func(id string) interface{} { return engines.RunProbe(id) })
}
