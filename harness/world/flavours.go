package world

import (
	"harness/model"
	"harness/sim"
)

var allPolicies = []model.Handling{model.HDefault, model.HReplace, model.HReplaceArr, model.HAppend, model.HPrepend}

// Flavours per property (DESIGN.md section 6).
var Flavours = map[string]*Flavour{
	"C12": {Prop: "C12", WCreate: 1, WMerge: 1, WSet: 6, WSetChild: 2, WRemove: 3, WChild: 2, WRead: 4, WIllegal: 1,
		Policies: []model.Handling{model.HDefault}, Nil: true, Reattach: true},
	"C01": {Prop: "C01", WCreate: 2, WMerge: 8, WRead: 1, WChild: 1,
		Policies: allPolicies, Nil: true, Mixed: true, Overlap: true},
	"C16": {Prop: "C16", WCreate: 2, WMerge: 8, WRead: 1,
		Policies: allPolicies, Nil: true, FieldOpts: true},
	"C10": {Prop: "C10", WCreate: 2, WMerge: 6, WSet: 3, WSetChild: 1, WRemove: 2, WChild: 3, WRead: 1,
		Policies: allPolicies, CfgSources: true, Nil: true, FieldOpts: true, Overlap: true},
	// C14's slice of E1: histories that move elements, then reads that must fail and name the setting
	"C14": {Prop: "C14", WCreate: 1, WMerge: 3, WSet: 3, WSetChild: 2, WRemove: 4, WChild: 2, WRead: 6, WIllegal: 2,
		Policies: []model.Handling{model.HDefault, model.HAppend, model.HPrepend, model.HReplaceArr}, Nil: true, MoveBias: true, Meta: true},
	"C15": {Prop: "C15", WCreate: 1, WMerge: 3, WSet: 3, WSetChild: 2, WRemove: 5, WChild: 2, WRead: 2, CfgSources: true,
		Policies: []model.Handling{model.HDefault, model.HAppend, model.HPrepend, model.HReplaceArr}, Nil: true, MoveBias: true},
}

// Histories is C07's slice of E1: long valid histories of every operation under every policy,
// judged by the run-wide monitors alone (no panic, no fatal error, termination). State
// disagreements with the model belong to other properties and are foreign observations here.
var Histories = &Flavour{Prop: "C07", WCreate: 1, WMerge: 3, WSet: 4, WSetChild: 2, WRemove: 5, WChild: 2, WRead: 3, WIllegal: 1,
	Policies: allPolicies, CfgSources: true, Nil: true, Mixed: true, MoveBias: true, Overlap: true}

// Run executes one world run for the given property flavour.
func Run(r *sim.R, f *Flavour, maxSteps int) {
	w := New(r, f)
	w.Configure()
	n := 1 + r.T.Choose(maxSteps, "n-steps")
	for i := 0; i < n; i++ {
		w.Step()
	}
}
