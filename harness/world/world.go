package world

import (
	"fmt"
	"os"
	"reflect"
	"regexp"
	"sort"
	"strconv"
	"strings"

	ucfg "github.com/elastic/go-ucfg"
	"github.com/elastic/go-ucfg/diff"

	"harness/fp"
	"harness/model"
	"harness/sim"
)

// Handle is one party of the simulated world: a *Config the "application"
// holds, paired with the model node it is a view of.
type Handle struct {
	ID   int
	C    *ucfg.Config
	M    *model.Node
	Dead bool
}

// Flavour selects workload mix and which oracles belong to the property.
type Flavour struct {
	Prop string
	// operation weights
	WCreate, WMerge, WSet, WSetChild, WRemove, WChild, WRead, WIllegal int
	Policies                                                           []model.Handling // global policies the merges draw from
	FieldOpts                                                          bool             // merges carry per-field policies (C16)
	CfgSources                                                         bool             // merges take *Config sources, also embedded (C10)
	Mixed                                                              bool             // allow merges that produce nodes with both parts
	Nil                                                                bool             // nil values and empty containers in operands
	Meta                                                               bool             // create with source metadata
	MoveBias                                                           bool             // bias towards element-moving operations (C15)
	Overlap                                                            bool             // merge sources may be other parts of the destination's tree
	Reattach                                                           bool             // configs removed from a tree are attached again with SetChild (also part of MoveBias)
}

// W is the world of one run.
type W struct {
	R       *sim.R
	F       *Flavour
	G       *Gen
	H       []*Handle
	nextID  int
	Sep     string
	Opts    []ucfg.Option
	MaxPool int
	own     map[string]bool

	optCache map[string]ucfg.Option
	opDetail map[string]string // structured facts about the last operation, for known-finding matchers
	detached []*Handle         // handles whose node was removed / replaced (candidates for re-attachment)
}

// oracle ownership: which property an oracle's verdict belongs to.
var oracleOwner = map[string][]string{
	"state":            {"C01", "C12", "C16", "C10", "C15", "C11", "C14"},
	"op-result":        {"C01", "C12", "C16", "C10", "C15"},
	"read":             {"C12"},
	"frame":            {"C12", "C10"},
	"links":            {"C15"},
	"path":             {"C15"},
	"parent":           {"C15"},
	"flatkeys":         {"C15"},
	"diff":             {"C15"},
	"source-untouched": {"C10"},
	"share-nothing":    {"C10"},
	"read-pure":        {"C11"},
	"error-typed":      {"C14"},
	"error-names":      {"C14"},
}

// New builds a world for a run.
func New(r *sim.R, f *Flavour) *W {
	w := &W{R: r, F: f}
	w.G = &Gen{R: r}
	return w
}

func (w *W) owns(oracle string) bool {
	for _, p := range oracleOwner[oracle] {
		if p == w.F.Prop {
			return true
		}
	}
	return false
}

// fail reports a failed oracle: a violation if the oracle belongs to the
// property under check, otherwise a foreign observation.
func (w *W) fail(oracle, op string, detail map[string]string, format string, a ...interface{}) {
	if len(w.opDetail) > 0 {
		d := map[string]string{}
		for k, v := range detail {
			d[k] = v
		}
		for k, v := range w.opDetail {
			d[k] = v
		}
		detail = d
	}
	if w.owns(oracle) {
		w.R.FailD(oracle, op, detail, format, a...)
	}
	owner := "?"
	if o := oracleOwner[oracle]; len(o) > 0 {
		owner = o[0]
	}
	w.R.Note(owner, oracle+"/"+op)
}

// flatSep is the separator FlattenedKeys and CompareConfigs join paths with: the configured one, the dot by default.
func (w *W) flatSep() string {
	if w.Sep == "" {
		return "."
	}
	return w.Sep
}

// Configure draws the run's configuration vector (swarm).
func (w *W) Configure() {
	t := w.R.T
	switch t.Choose(3, "sep") {
	case 0:
		w.Sep = "."
	case 1:
		// any string may separate path segments
		w.Sep = []string{"/", "::"}[t.Choose(2, "alt-sep")]
		w.R.Probe("options: a path separator other than the dot")
	}
	if w.Sep != "" {
		w.Opts = []ucfg.Option{ucfg.PathSep(w.Sep)}
	}
	w.G.MaxDepth = 1 + t.Choose(3, "max-depth")
	w.G.MaxWidth = 1 + t.Choose(3, "max-width")
	w.G.AllowNil = w.F.Nil && t.Bool("allow-nil")
	w.G.AllowEmpty = w.F.Nil && t.Bool("allow-empty")
	w.MaxPool = 1 + t.Choose(3, "pool")
	w.R.Order = t.Weighted([]int{3, 2, 2}, "order-policy")
}

// live handles -------------------------------------------------------------------------------

func (w *W) isLive(h *Handle) bool {
	if h.Dead || h.M.Detached {
		return false
	}
	root := h.M.Root()
	if root.Detached {
		return false
	}
	for _, x := range w.H {
		if !x.Dead && x.M == root && x.M.Parent == nil {
			return true
		}
	}
	return false
}

func (w *W) live() []*Handle {
	var out []*Handle
	for _, h := range w.H {
		if w.isLive(h) {
			out = append(out, h)
		}
	}
	return out
}

func (w *W) roots() []*Handle {
	var out []*Handle
	for _, h := range w.H {
		if !h.Dead && !h.M.Detached && h.M.Parent == nil {
			out = append(out, h)
		}
	}
	return out
}

func (w *W) rootOf(h *Handle) *Handle {
	r := h.M.Root()
	for _, x := range w.H {
		if !x.Dead && x.M == r {
			return x
		}
	}
	return nil
}

func (w *W) addHandle(c *ucfg.Config, m *model.Node) *Handle {
	w.nextID++
	h := &Handle{ID: w.nextID, C: c, M: m}
	w.H = append(w.H, h)
	return h
}

func (w *W) pick(hs []*Handle, label string) *Handle {
	if len(hs) == 0 {
		return nil
	}
	return hs[w.R.T.Choose(len(hs), label)]
}

// killBelow marks every handle strictly below node as dead (the library may
// re-create nodes there; the properties do not promise old handles survive).
func (w *W) killBelow(n *model.Node) {
	for _, h := range w.H {
		if h.M != n && h.M.Below(n) {
			h.Dead = true
		}
	}
}

// gc drops handles that are no longer live and bounds the pool.
func (w *W) gc() {
	var keep []*Handle
	for _, h := range w.H {
		if w.isLive(h) {
			keep = append(keep, h)
		} else if !h.Dead && h.M.Detached && h.M.K == model.KSub && !hasMixed(h.M) {
			// the application still holds this config although it was removed from its tree
			w.detached = append(w.detached, h)
			if len(w.detached) > 3 {
				w.detached = w.detached[1:]
			}
		}
	}
	w.H = keep
	rs := w.roots()
	for len(rs) > w.MaxPool {
		rs[0].Dead = true
		rs = rs[1:]
	}
	if len(w.H) > 12 {
		// drop the oldest non-root handles
		n := len(w.H) - 12
		for _, h := range w.H {
			if n == 0 {
				break
			}
			if h.M.Parent != nil {
				h.Dead = true
				n--
			}
		}
	}
}

// addresses ----------------------------------------------------------------------------------

// Addr is an address relative to a handle together with its API spelling.
type Addr struct {
	Segs []model.Seg
	Name string
	Idx  int
}

func (a Addr) String() string { return fmt.Sprintf("(%q,%d)", a.Name, a.Idx) }

// spell chooses an API spelling (name, idx) for segs; ok=false if the address
// cannot be expressed with the run's separator setting.
func (w *W) spell(segs []model.Seg) (Addr, bool) {
	a := Addr{Segs: segs, Idx: -1}
	if len(segs) == 0 {
		return a, false
	}
	last := segs[len(segs)-1]
	body := segs
	if last.IsIdx && (len(segs) == 1 || w.Sep == "" || !w.R.T.Chance(1, 3, "spell-dotted-idx")) {
		a.Idx = last.Idx
		body = segs[:len(segs)-1]
	}
	if w.Sep == "" {
		if len(body) > 1 {
			return a, false
		}
		if len(body) == 1 && body[0].IsIdx {
			return a, false
		}
	}
	if len(body) > 0 && body[0].IsIdx && w.Sep != "" {
		// a leading index segment in a dotted name is fine: "0.a"
	}
	a.Name = model.PathString(body, w.Sep)
	if a.Name == "" && a.Idx < 0 {
		return a, false
	}
	return a, true
}

// genAddr draws an address relative to node n: mostly along existing
// structure, sometimes one step beyond it, sometimes through a primitive.
func (w *W) genAddr(n *model.Node, maxLen int) []model.Seg {
	t := w.R.T
	var segs []model.Seg
	cur := n
	for len(segs) < maxLen {
		var s model.Seg
		switch {
		case cur != nil && cur.K == model.KSub && len(cur.A) > 0 && len(cur.D) == 0:
			// list: existing index, one past the end, or further
			k := t.Weighted([]int{6, 2, 1}, "addr-list")
			switch k {
			case 0:
				s = model.I(t.Choose(len(cur.A), "addr-idx"))
			case 1:
				s = model.I(len(cur.A))
			default:
				s = model.I(len(cur.A) + 1 + t.Choose(2, "addr-far"))
			}
		case cur != nil && cur.K == model.KSub && len(cur.D) > 0 && len(cur.A) == 0:
			ks := cur.Keys()
			if t.Chance(3, 4, "addr-existing-key") {
				s = model.N(ks[t.Choose(len(ks), "addr-key")])
			} else {
				s = model.N(Names[t.Choose(len(Names), "addr-name")])
			}
		default:
			// absent, empty, primitive or mixed: any step
			if t.Chance(1, 3, "addr-step-idx") {
				s = model.I(t.Choose(3, "addr-idx-free"))
			} else {
				s = model.N(Names[t.Choose(len(Names), "addr-name")])
			}
		}
		segs = append(segs, s)
		if cur != nil {
			c, st := cur.Lookup([]model.Seg{s})
			if st == model.Found {
				cur = c
			} else {
				cur = nil
			}
		}
		// stop?
		stop := 2
		if cur == nil || cur.K != model.KSub {
			stop = 5
		}
		if t.Choose(8, "addr-stop") < stop {
			break
		}
	}
	return segs
}

// observation --------------------------------------------------------------------------------

func (w *W) unpackGeneric(c *ucfg.Config, op string) (interface{}, error) {
	var out interface{}
	var err error
	// Unpack into interface{} is not supported at top level; use the typed
	// generic targets the property names.
	if c.IsArray() && !c.IsDict() {
		var l []interface{}
		w.R.MustComplete(op, func() { err = c.Unpack(&l, w.Opts...) })
		out = l
	} else {
		var m map[string]interface{}
		w.R.MustComplete(op, func() { err = c.Unpack(&m, w.Opts...) })
		out = m
	}
	return out, err
}

func (w *W) checkErrTyped(err error, op string) {
	if err == nil {
		return
	}
	e, ok := err.(ucfg.Error)
	if !ok {
		w.fail("error-typed", op, map[string]string{"err": err.Error()}, "%s returned an error that is not a ucfg.Error: %T %v", op, err, err)
		return
	}
	if e.Reason() == nil || e.Class() == nil {
		w.fail("error-typed", op, nil, "%s returned a ucfg.Error with nil Reason or Class: %v", op, err)
	}
}

// CheckAll evaluates the per-step invariants on every live handle.
func (w *W) CheckAll(op string) {
	for _, h := range w.live() {
		w.checkState(h, op)
	}
	for _, h := range w.roots() {
		w.checkStructure(h, op)
	}
	// state hash for the reach measure
	var b strings.Builder
	for _, h := range w.roots() {
		b.WriteString(h.M.Canon())
		b.WriteString("|")
	}
	hh := uint64(1469598103934665603)
	for i := 0; i < b.Len(); i++ {
		hh = (hh ^ uint64(b.String()[i])) * 1099511628211
	}
	w.R.State(hh)
}

func (w *W) checkState(h *Handle, op string) {
	if err := h.M.CheckLinks(); err != nil {
		panic("harness: " + err.Error())
	}
	if h.M.Mixed() {
		w.checkMixed(h, op)
		return
	}
	got, err := w.unpackGeneric(h.C, "Unpack")
	if err != nil {
		w.checkErrTyped(err, "Unpack")
		w.fail("state", op, nil, "after %s: generic Unpack of handle %d (%s) failed: %v", op, h.ID, h.M.Path("."), err)
		return
	}
	want := h.M.Canon()
	if g := model.CanonValue(got); g != want {
		w.fail("state", op, map[string]string{"got": g, "want": want}, "after %s: handle %d (path %q) unpacks to\n   %s\nbut the reference tree says\n   %s", op, h.ID, h.M.Path("."), g, want)
		return
	}
	// the same once more, telling empty lists from absent settings
	if ws, ok := h.M.CanonStrict(); ok {
		if gs := model.CanonValueStrict(got); gs != ws {
			w.fail("state", op, map[string]string{"got": gs, "want": ws, "strict": "true"}, "after %s: handle %d (path %q) unpacks to\n   %s\nbut the reference tree says (empty lists told apart)\n   %s", op, h.ID, h.M.Path("."), gs, ws)
		}
	}
}

// checkMixed compares a node that has both a dictionary and a list part: a
// typed top-level target shows one part at a time.
func (w *W) checkMixed(h *Handle, op string) {
	var m map[string]interface{}
	var l []interface{}
	var err error
	w.R.MustComplete("Unpack", func() { err = h.C.Unpack(&m, w.Opts...) })
	if err == nil {
		w.R.MustComplete("Unpack", func() { err = h.C.Unpack(&l, w.Opts...) })
	}
	if err != nil {
		w.fail("state", op, nil, "after %s: generic Unpack of handle %d failed: %v", op, h.ID, err)
		return
	}
	dpart := &model.Node{K: model.KSub, D: h.M.D}
	lpart := &model.Node{K: model.KSub, A: h.M.A}
	if g, want := model.CanonValue(m), dpart.Canon(); g != want {
		w.fail("state", op, map[string]string{"got": g, "want": want}, "after %s: handle %d (path %q) unpacks into a map as\n   %s\nbut the dictionary part of the reference tree is\n   %s", op, h.ID, h.M.Path("."), g, want)
	}
	if g, want := model.CanonValue(l), lpart.Canon(); g != want {
		w.fail("state", op, map[string]string{"got": g, "want": want}, "after %s: handle %d (path %q) unpacks into a list as\n   %s\nbut the list part of the reference tree is\n   %s", op, h.ID, h.M.Path("."), g, want)
	}
}

// cfgAt navigates from a root config to the config of model node n using Child.
func (w *W) cfgAt(root *Handle, n *model.Node) (*ucfg.Config, error) {
	var segs []model.Seg
	for x := n; x.Parent != nil; x = x.Parent {
		if _, err := strconv.Atoi(x.Field); err == nil && len(x.Parent.A) > 0 && len(x.Parent.D) == 0 {
			i, _ := strconv.Atoi(x.Field)
			segs = append([]model.Seg{model.I(i)}, segs...)
		} else {
			segs = append([]model.Seg{model.N(x.Field)}, segs...)
		}
	}
	c := root.C
	for _, s := range segs {
		var err error
		var next *ucfg.Config
		if s.IsIdx {
			w.R.MustComplete("Child", func() { next, err = c.Child("", s.Idx) })
		} else {
			w.R.MustComplete("Child", func() { next, err = c.Child(s.Name, -1) })
		}
		if err != nil {
			return nil, err
		}
		c = next
	}
	return c, nil
}

func hasMixed(n *model.Node) bool {
	mixed := false
	n.Walk(func(x *model.Node, _ []model.Seg) {
		if x.Mixed() {
			mixed = true
		}
	})
	return mixed
}

// checkStructure: C15's invariants on one root.
func (w *W) checkStructure(root *Handle, op string) {
	mixed := hasMixed(root.M)
	// positional metadata by reflection (covers primitive leaves)
	errs, err := fp.Links(root.C)
	if err == nil && len(errs) > 0 && !mixed {
		w.fail("links", op, map[string]string{"first": errs[0].Where + ": " + errs[0].What}, "after %s: positional metadata out of sync with the structure: %s", op, fp.Describe(errs))
	}
	if mixed {
		return
	}
	// Path and Parent of every reachable container, through the public API
	root.M.Walk(func(x *model.Node, segs []model.Seg) {
		if x.K != model.KSub || x == root.M {
			return
		}
		c, err := w.cfgAt(root, x)
		if err != nil {
			w.fail("state", op, nil, "after %s: cannot navigate to %s with Child: %v", op, x.Path("."), err)
			return
		}
		if got, want := c.Path("."), x.Path("."); got != want {
			w.fail("path", op, map[string]string{"got": got, "want": want}, "after %s: the node reached as %q reports Path() = %q", op, want, got)
		}
		pc, err := w.cfgAt(root, x.Parent)
		if err == nil && c.Parent() != pc {
			w.fail("parent", op, map[string]string{"at": x.Path(".")}, "after %s: Parent() of the node reached as %q is not the node that contains it", op, x.Path("."))
		}
	})
	if got := root.C.Path("."); got != "" {
		w.fail("path", op, map[string]string{"got": got, "want": ""}, "after %s: a root config reports Path() = %q", op, got)
	}
	// FlattenedKeys
	var keys []string
	w.R.MustComplete("FlattenedKeys", func() { keys = root.C.FlattenedKeys(w.Opts...) })
	want := root.M.Leaves(w.flatSep())
	if strings.Join(keys, "\x00") != strings.Join(want, "\x00") {
		w.fail("flatkeys", op, map[string]string{"got": strings.Join(keys, ","), "want": strings.Join(want, ",")}, "after %s: FlattenedKeys = %v, the non-nil primitive settings are %v", op, keys, want)
	}
}

// Step executes one operation chosen by the tape and checks the invariants.
func (w *W) Step() {
	if os.Getenv("VSIM_DEBUG_TREE") != "" {
		for _, h := range w.live() {
			var d []string
			h.M.Walk(func(x *model.Node, s []model.Seg) { d = append(d, fmt.Sprintf("%v:%s/%s", s, x.K, x.Src)) })
			w.R.Tracef("DEBUG h%d %v", h.ID, d)
		}
	}
	w.R.NextStep()
	w.opDetail = nil
	f := w.F
	weights := []int{f.WCreate, f.WMerge, f.WSet, f.WSetChild, f.WRemove, f.WChild, f.WRead, f.WIllegal}
	if len(w.roots()) == 0 {
		w.opCreate()
		w.gc()
		w.CheckAll("Create")
		return
	}
	var op string
	switch w.R.T.Weighted(weights, "op") {
	case 0:
		op = w.opCreate()
	case 1:
		op = w.opMerge()
	case 2:
		op = w.opSet()
	case 3:
		op = w.opSetChild()
	case 4:
		op = w.opRemove()
	case 5:
		op = w.opChild()
	case 6:
		op = w.opRead()
	case 7:
		op = w.opIllegal()
	}
	w.gc()
	if op != "" {
		w.CheckAll(op)
	}
}

// operations ---------------------------------------------------------------------------------

func (w *W) withMeta(opts []ucfg.Option) ([]ucfg.Option, string) {
	if w.F.Meta && w.R.T.Bool("meta") {
		w.G.Ctr++
		src := "src" + strconv.Itoa(w.G.Ctr)
		return append(append([]ucfg.Option{}, opts...), ucfg.MetaData(ucfg.Meta{Source: src})), src
	}
	return opts, ""
}

// setSrc records the source the settings of an input were loaded with. The root of a config is
// the object NewFrom / New creates before the input is merged into it: it carries no source.
func setSrc(n *model.Node, src string) {
	n.Walk(func(x *model.Node, _ []model.Seg) { x.Src = src })
	n.Src = ""
}

// topLevel: a config created from an empty top-level container is just an
// empty config (merging an empty list replaces nothing, not even list-ness).
func topLevel(tree *model.Node) *model.Node {
	if tree.Empty() {
		tree.Sticky = 0
	}
	return tree
}

// respell writes some nested settings of a generic input as dotted keys: under a path separator
// {"a": {"b": v}} and {"a<sep>b": v} are the same input, whatever v is (C12: "the equivalent
// dotted path"). Returns the input and a note for the trace.
func (w *W) respell(in interface{}) (interface{}, string) {
	if w.Sep == "" || !w.R.T.Chance(1, 3, "respell") {
		return in, ""
	}
	n := 0
	out := w.respellMap(in, 0, &n)
	if n == 0 {
		return in, ""
	}
	w.R.Probe("input: nested settings spelled as dotted keys (containers as values included)")
	return out, fmt.Sprintf(" [spelled with %d dotted keys: %v]", n, out)
}

func (w *W) respellMap(v interface{}, depth int, n *int) interface{} {
	m, ok := v.(map[string]interface{})
	if !ok || depth > 2 {
		return v
	}
	t := w.R.T
	keys := make([]string, 0, len(m))
	for k := range m {
		keys = append(keys, k)
	}
	sort.Strings(keys)
	out := map[string]interface{}{}
	for _, k := range keys {
		switch c := m[k].(type) {
		case map[string]interface{}:
			if len(c) > 0 && t.Chance(1, 2, "spell-dotted") {
				split := t.Bool("spell-split")
				kks := make([]string, 0, len(c))
				for kk := range c {
					kks = append(kks, kk)
				}
				sort.Strings(kks)
				rest := map[string]interface{}{}
				for i, kk := range kks {
					if split && i%2 == 1 {
						rest[kk] = c[kk]
					} else {
						out[k+w.Sep+kk] = c[kk]
						*n++
					}
				}
				if len(rest) > 0 {
					out[k] = rest
				}
				continue
			}
			out[k] = w.respellMap(c, depth+1, n)
		case []interface{}:
			if len(c) > 0 && t.Chance(1, 4, "spell-list-dotted") {
				for i, e := range c {
					out[k+w.Sep+strconv.Itoa(i)] = e
					*n++
				}
				continue
			}
			out[k] = c
		default:
			out[k] = c
		}
	}
	return out
}

func (w *W) opCreate() string {
	tree := topLevel(w.G.Container())
	rep := w.R.T.Choose(RepCount, "rep")
	FitRep(tree, rep)
	opts, src := w.withMeta(w.Opts)
	if rep == RepConfig {
		src = "" // an existing Config keeps the metadata its values were created with
	}
	setSrc(tree, src)
	LastStructForm = ""
	in := Render(tree, rep, w.Opts)
	if LastStructForm != "" {
		w.R.Probe("input: struct source with " + LastStructForm)
		if strings.HasPrefix(LastStructForm, "a, b and an inline") {
			// (the settings of the inline Config were created without the metadata of this call)
			for k, c := range tree.D {
				if k != "a" && k != "b" {
					setSrc(c, "")
				}
			}
		}
	}
	spelled := ""
	if rep == RepGeneric {
		in, spelled = w.respell(in)
	}
	var c *ucfg.Config
	var err error
	w.R.MustComplete("NewFrom", func() { c, err = ucfg.NewFrom(in, opts...) })
	w.R.Tracef("h%d := NewFrom(%s %s%s)", w.nextID+1, RepName(rep), tree.Canon(), spelled)
	if err != nil {
		w.checkErrTyped(err, "NewFrom")
		w.fail("op-result", "NewFrom", nil, "NewFrom(%s) failed on a valid input: %v", tree.Canon(), err)
		return ""
	}
	w.addHandle(c, tree)
	w.R.StateOps++
	return "Create"
}

var policyOpt = map[model.Handling]ucfg.Option{
	model.HReplace:    ucfg.ReplaceValues,
	model.HAppend:     ucfg.AppendValues,
	model.HPrepend:    ucfg.PrependValues,
	model.HReplaceArr: ucfg.ReplaceArrValues,
}

// fieldPaths collects candidate per-field option paths: paths of containers in
// either operand plus a few that exist in neither.
func (w *W) fieldPaths(a, b *model.Node) [][]string {
	seen := map[string]bool{}
	var out [][]string
	add := func(n *model.Node) {
		n.Walk(func(x *model.Node, segs []model.Seg) {
			if len(segs) == 0 || len(segs) > 3 {
				return
			}
			p := make([]string, len(segs))
			for i, s := range segs {
				p[i] = s.String()
			}
			k := strings.Join(p, ".")
			if !seen[k] {
				seen[k] = true
				out = append(out, p)
			}
		})
	}
	add(a)
	add(b)
	sort.Slice(out, func(i, j int) bool { return strings.Join(out[i], ".") < strings.Join(out[j], ".") })
	return out
}

// fieldOption returns the Option value for (policy, path); within a run the
// same Option value is reused by later merges, as an application that keeps
// its options in variables does.
func (w *W) fieldOption(h model.Handling, name string) ucfg.Option {
	key := h.String() + "|" + name
	if o, ok := w.optCache[key]; ok {
		w.R.Probe("merge: an Option value is reused by a later call")
		return o
	}
	if w.optCache == nil {
		w.optCache = map[string]ucfg.Option{}
	}
	o := fieldOption(h, name)
	w.optCache[key] = o
	return o
}

func fieldOption(h model.Handling, name string) ucfg.Option {
	switch h {
	case model.HReplace:
		return ucfg.FieldReplaceValues(name)
	case model.HAppend:
		return ucfg.FieldAppendValues(name)
	case model.HPrepend:
		return ucfg.FieldPrependValues(name)
	default:
		return ucfg.FieldMergeValues(name)
	}
}

func (w *W) opMerge() string {
	t := w.R.T
	live := w.live()
	dst := w.pick(live, "merge-dst")
	if dst.M.K != model.KSub {
		return ""
	}
	mo := model.MergeOpts{Global: w.F.Policies[t.Choose(len(w.F.Policies), "policy")]}

	// source
	var srcTree *model.Node
	var srcVal interface{}
	var srcH *Handle
	desc := ""
	srcKind := 0
	if w.F.CfgSources {
		srcKind = t.Weighted([]int{2, 3, 2, 2, 1, 1, 1}, "merge-src-kind")
		if srcKind >= 4 && t.Bool("into-empty-destination") {
			// a fresh, empty destination
			dst = w.addHandle(ucfg.New(), &model.Node{K: model.KSub})
			live = w.live()
			w.R.Tracef("h%d := New()", dst.ID)
		}
	} else if t.Chance(1, 6, "merge-self-or-handle") {
		srcKind = 1
	}
	embed := ""
	switch srcKind {
	case 0:
		if !dst.M.Empty() && !hasMixed(dst.M) && t.Chance(1, 3, "source-is-a-variant-of-the-destination") {
			srcTree = w.G.Variant(dst.M)
			w.R.Probe("merge: source of the same shape as the destination")
		} else {
			srcTree = w.G.Container()
		}
		rep := t.Choose(RepCount, "rep")
		FitRep(srcTree, rep)
		LastStructForm = ""
		srcVal = Render(srcTree, rep, w.Opts)
		if LastStructForm != "" {
			w.R.Probe("input: struct source with " + LastStructForm)
		}
		desc = RepName(rep) + " " + srcTree.Canon()
		if rep == RepGeneric {
			var spelled string
			srcVal, spelled = w.respell(srcVal)
			desc += spelled
		}
	default:
		// another handle's config: directly, or embedded in a map / slice
		var cands []*Handle
		for _, h := range live {
			if h.M.K != model.KSub {
				continue
			}
			if h == dst || h.M.Root() != dst.M.Root() {
				cands = append(cands, h)
			} else if w.F.Overlap {
				// a part of the destination's own tree: a section merged into its parent, a parent into
				// one of its sections
				cands = append(cands, h)
			}
		}
		srcH = w.pick(cands, "merge-src-handle")
		if srcH == nil {
			return ""
		}
		if srcKind >= 2 && srcKind <= 3 && w.R.Avoid["O9"] && srcH.M.Parent == nil {
			srcKind = 1
		}
		if srcH == dst && srcKind >= 2 {
			srcKind = 1
		}
		switch srcKind {
		case 1:
			srcTree = srcH.M.Copy()
			srcVal = srcH.C
			desc = fmt.Sprintf("h%d", srcH.ID)
		case 4:
			// the Config passed by value
			srcTree = srcH.M.Copy()
			srcVal = *srcH.C
			desc = fmt.Sprintf("*h%d (by value)", srcH.ID)
			embed = "by-value"
		case 5:
			// a pointer to the caller's pointer
			srcTree = srcH.M.Copy()
			ptr := srcH.C
			srcVal = &ptr
			desc = fmt.Sprintf("&&h%d (**Config)", srcH.ID)
			embed = "ptr-ptr"
		case 2:
			k := Names[t.Choose(len(Names), "embed-key")]
			srcTree = model.Dict()
			srcTree.SetD(k, srcH.M.Copy())
			m := map[string]interface{}{k: srcH.C}
			srcVal = m
			desc = fmt.Sprintf("map{%s: h%d}", k, srcH.ID)
			embed = "map"
			// the same input may add a setting below the embedded config in dotted spelling
			if sub := srcTree.D[k]; w.Sep != "" && sub.K == model.KSub && len(sub.A) == 0 && sub.Sticky&2 == 0 && t.Chance(1, 3, "embed-dotted-sibling") {
				if _, taken := sub.D["zz"]; !taken {
					v := w.G.Prim()
					sub.SetD("zz", v)
					m[k+w.Sep+"zz"] = leaf(v)
					desc = fmt.Sprintf("map{%s: h%d, %s.zz: %s}", k, srcH.ID, k, v.Canon())
					embed = "map+dotted"
					w.R.Probe("merge: input adds a dotted setting below an embedded config")
				}
			}
		case 3:
			srcTree = model.List()
			srcTree.Push(srcH.M.Copy())
			srcVal = []interface{}{srcH.C}
			desc = fmt.Sprintf("[h%d]", srcH.ID)
			embed = "slice"
		case 6:
			// a struct that inlines the config and has a sibling field, declared after it, adding a
			// setting to one of the config's own dictionaries (or a new dictionary)
			srcTree = srcH.M.Copy()
			srcVal = srcH.C
			desc = fmt.Sprintf("h%d", srcH.ID)
			if srcTree.PureDict() {
				var ks []string
				for _, k := range srcTree.Keys() {
					if c := srcTree.D[k]; c.PureDict() && c.D["zy"] == nil {
						ks = append(ks, k)
					}
				}
				k := "zk"
				if len(ks) > 0 {
					k = ks[t.Choose(len(ks), "inline-sibling-key")]
					w.R.Probe("merge: struct source inlining a config, a later field adds to one of its dictionaries")
				}
				if _, taken := srcTree.D[k]; k != "zk" || !taken {
					if srcTree.D[k] == nil {
						srcTree.SetD(k, model.Dict())
					}
					srcTree.D[k].SetD("zy", model.Int(2))
					ty := reflect.StructOf([]reflect.StructField{
						{Name: "Base", Type: reflect.TypeOf((*ucfg.Config)(nil)), Tag: `config:",inline"`},
						{Name: "Extra", Type: reflect.TypeOf(map[string]interface{}{}), Tag: reflect.StructTag(`config:"` + k + `"`)},
					})
					v := reflect.New(ty).Elem()
					v.Field(0).Set(reflect.ValueOf(srcH.C))
					v.Field(1).Set(reflect.ValueOf(map[string]interface{}{"zy": uint64(2)}))
					srcVal = v.Interface()
					desc = fmt.Sprintf("struct{h%d inline; %s: {zy: 2}}", srcH.ID, k)
					embed = "inline-struct"
				}
			}
		}
		if srcH == dst {
			w.R.Probe("merge: source and destination alias (self-merge)")
		} else if srcH.M.Root() == dst.M.Root() {
			w.R.Probe("merge: source is another part of the destination's tree")
		}
	}
	if !w.F.Mixed {
		// keep operands shape-compatible enough that no node gets both parts
		if clash(dst.M, srcTree) {
			return ""
		}
	}
	// repeated append/prepend self-merges double lists: stay far below MaxIdx (1024), beyond
	// which an index is a name in a dotted key and an error as an explicit argument
	if maxList(dst.M)+maxList(srcTree) > 48 {
		return ""
	}

	opts := append([]ucfg.Option{}, w.Opts...)
	if o, ok := policyOpt[mo.Global]; ok {
		opts = append(opts, o)
	}
	var fdesc []string
	if w.F.FieldOpts && w.Sep != "" && mo.Global != model.HReplace {
		cands := w.fieldPaths(dst.M, srcTree)
		n := t.Choose(4, "n-field-opts")
		used := map[string]bool{}
		inExplicit := map[string]bool{} // names occurring in explicit option paths
		wildNames := map[string]bool{}
		// (an option for one index of a list is often accompanied by one for the list itself, naming
		// the index-wise merge the index option presupposes)
		var forced [][]string
		for i := 0; (i < n || len(forced) > 0) && len(cands) > 0; i++ {
			var p []string
			isForced := false
			if len(forced) > 0 {
				p, forced = forced[0], forced[1:]
				isForced = true
			} else if t.Chance(1, 5, "field-opt-absent") {
				p = []string{Names[t.Choose(len(Names), "fo-name")], Names[t.Choose(len(Names), "fo-name2")]}
			} else {
				p = cands[t.Choose(len(cands), "field-opt-path")]
			}
			// "*" for every index of a list: one index segment of the path is generalised, unless
			// another option already addresses an index (or every index) of the same list
			if !isForced && t.Chance(1, 4, "field-opt-star") {
				at := -1
				for i, x := range p {
					if _, err := strconv.Atoi(x); err == nil {
						at = i
					}
				}
				if at >= 0 {
					p = append([]string{}, p...)
					p[at] = "*"
				}
			}
			clashIdx := false
			for i, x := range p {
				_, err := strconv.Atoi(x)
				if err != nil && x != "*" {
					continue
				}
				for _, q := range mo.Fields {
					if q.Wild || len(q.Path) <= i {
						continue
					}
					_, qerr := strconv.Atoi(q.Path[i])
					if (qerr == nil || q.Path[i] == "*") && (q.Path[i] == "*" || x == "*") && strings.Join(q.Path[:i], ".") == strings.Join(p[:i], ".") {
						clashIdx = true
					}
				}
			}
			// "x.*" is also how the option tree marks the policy of x itself: an option for a list and
			// an option through "every index" of the same list cannot both be represented
			for _, q := range mo.Fields {
				if q.Wild {
					continue
				}
				for i, x := range p {
					if x == "*" && len(q.Path) == i && strings.Join(q.Path, ".") == strings.Join(p[:i], ".") {
						clashIdx = true
					}
				}
				for i, x := range q.Path {
					if x == "*" && len(p) == i && strings.Join(p, ".") == strings.Join(q.Path[:i], ".") {
						clashIdx = true
					}
				}
			}
			if clashIdx {
				continue
			}
			key := strings.Join(p, ".")
			last := p[len(p)-1]
			again := false
			if used[key] && !used["**."+last] && t.Chance(1, 2, "field-opt-path-again") {
				// the same path named by a later option (defaults first, the override after them): the later one counts
				again = true
				w.R.Probe("merge: the same path named by two per-field options")
			}
			if !again && (used[key] || used["**."+last] || used["~"+last]) {
				continue
			}
			h := []model.Handling{model.HMerge, model.HReplace, model.HAppend, model.HPrepend}[t.Choose(4, "field-opt-policy")]
			if isForced {
				h = model.HMerge
				w.R.Probe("merge: option for one index of a list next to an index-wise merge option for the list")
			} else if len(p) >= 2 && t.Chance(1, 3, "field-opt-also-for-the-list") {
				for at := len(p) - 1; at >= 1; at-- {
					if _, err := strconv.Atoi(p[at]); err == nil {
						forced = append(forced, append([]string{}, p[:at]...))
						break
					}
				}
			}
			fo := model.FieldOpt{Path: p, H: h}
			name := key
			// how an explicit path that runs through (or ends at) a node matched by a "**"
			// wildcard combines with it is not defined by C16: such pairs are not generated
			if !isForced && t.Chance(1, 5, "field-opt-wild") {
				if _, err := strconv.Atoi(last); err == nil || inExplicit[last] {
					continue
				}
				fo = model.FieldOpt{Path: []string{last}, Wild: true, H: h}
				name = "**." + last
				wildNames[last] = true
			} else {
				clash := false
				for _, x := range p {
					if wildNames[x] {
						clash = true
					}
				}
				if clash {
					continue
				}
				for _, x := range p {
					inExplicit[x] = true
				}
			}
			used[name] = true
			used[key] = true
			used["~"+last] = true
			mo.Fields = append(mo.Fields, fo)
			if !fo.Wild && last == "*" {
				// ("x.*" is how the library spells "x" itself: the elements of x are "x.*.*")
				name += ".*"
				w.R.Probe("merge: per-field policy for every element of a list")
			}
			opts = append(opts, w.fieldOption(h, name))
			fdesc = append(fdesc, fmt.Sprintf("%s=%s", name, h))
		}
	}

	// known finding O30: next to a "**" option, an explicit option whose path runs through a list
	// index is lost when the node of the option tree that holds the index entry also holds an
	// explicit named entry (another option with the same prefix that continues with a name, or
	// an option for the list itself)
	if len(mo.Fields) > 0 {
		wild, hit := false, false
		isIdx := func(x string) bool { _, err := strconv.Atoi(x); return err == nil }
		for _, fo := range mo.Fields {
			if fo.Wild {
				wild = true
			}
		}
		for _, p := range mo.Fields {
			if p.Wild {
				continue
			}
			for i, x := range p.Path {
				if !isIdx(x) {
					continue
				}
				for _, q := range mo.Fields {
					// q adds a named entry to the node: it continues with a name below the same
					// prefix, or it is an option for the list itself (its handling marker "*")
					if q.Wild || len(q.Path) < i || (len(q.Path) > i && isIdx(q.Path[i])) || (len(q.Path) == i && i == 0) {
						continue
					}
					same := true
					for j := 0; j < i; j++ {
						if q.Path[j] != p.Path[j] {
							same = false
						}
					}
					if same {
						hit = true
					}
				}
			}
		}
		// ... and inside the subtree of an every-index entry "*" every index lookup misses, so
		// whatever follows the "*" in the option's path is lost next to a "**" entry
		for _, p := range mo.Fields {
			if p.Wild {
				continue
			}
			for i, x := range p.Path {
				if x == "*" && i < len(p.Path)-1 {
					hit = true
				}
			}
		}
		if wild && hit {
			if w.R.Avoid["O30"] {
				return ""
			}
			w.opDetail = map[string]string{"wild_with_index": "true"}
		}
	}
	// known finding O12: an option's path also matches every path that contains it as a subsequence
	if len(mo.Fields) > 0 {
		spurious := spuriousOptions(mo.Fields, dst.M, srcTree)
		if spurious && w.R.Avoid["O12"] {
			return ""
		}
		if w.opDetail == nil {
			w.opDetail = map[string]string{}
		}
		w.opDetail["spurious_field_match"] = fmt.Sprint(spurious)
		if w.opDetail["wild_with_index"] == "" {
			w.opDetail["wild_with_index"] = "false"
		}
	}

	// C10 observations before
	var srcFP uint64
	var srcDump string
	var srcRoot *Handle
	// (a source that is part of the destination's tree changes with it: only the resulting state is judged)
	overlap := srcH != nil && srcH != dst && srcH.M.Root() == dst.M.Root()
	if srcH != nil && srcH != dst && !overlap {
		srcFP = fp.Fingerprint(srcH.C)
		if w.R.Trace {
			srcDump = fp.FingerprintDump(srcH.C)
		}
		srcRoot = w.rootOf(srcH)
	}

	var err error
	w.R.Tracef("h%d.Merge(%s, %s %v)", dst.ID, desc, mo.Global, fdesc)
	w.R.MustComplete("Merge", func() { err = dst.C.Merge(srcVal, opts...) })
	if err != nil {
		w.checkErrTyped(err, "Merge")
		w.fail("op-result", "Merge", nil, "Merge of a valid source failed: %v", err)
		return ""
	}
	var st model.MergeStats
	before := len(dst.M.A)
	model.Merge(dst.M, srcTree, mo, &st)
	w.killBelow(dst.M)
	w.R.StateOps++
	if st.PrimOverSub > 0 {
		w.R.Probe("merge: primitive over container")
	}
	if st.SubOverPrim > 0 {
		w.R.Probe("merge: container over primitive")
	}
	if st.NilKeepsSub > 0 {
		w.R.Probe("merge: nil in B keeps container of A")
	}
	if st.ListMoved > 0 {
		w.R.Probe("merge: prepend moved existing elements")
	}
	if st.Overrides > 0 {
		w.R.Probe("merge: per-field policy applied")
	}
	if (mo.Global == model.HAppend || mo.Global == model.HPrepend) && len(srcTree.A) > 0 && before > 0 {
		w.R.Probe("merge: append/prepend onto non-empty list")
	}

	if srcH != nil && srcH != dst && !overlap {
		after := fp.Fingerprint(srcH.C)
		if after != srcFP {
			d := ""
			if w.R.Trace {
				d = "\n" + fp.DiffDump(srcDump, fp.FingerprintDump(srcH.C))
			}
			w.fail("source-untouched", "Merge", map[string]string{"embed": embed, "srcroot": strconv.FormatBool(srcH.M.Parent == nil)},
				"Merge changed its source h%d (embedded: %q): internal state differs before/after%s", srcH.ID, embed, d)
		}
		droot := w.rootOf(dst)
		if srcRoot != nil && droot != nil && srcRoot != droot {
			sh, err := fp.Shared(droot.C, srcRoot.C)
			if err == nil && len(sh) > 0 {
				w.fail("share-nothing", "Merge", map[string]string{"embed": embed}, "after Merge destination and source share mutable state: %v", sh)
			}
		}
		w.R.Probe("merge: *Config source re-observed after the merge")
	}
	return "Merge"
}

// spuriousMatch: is there a node path in either operand, other than p itself,
// that contains p as a subsequence ending at the path's last element?
// SpuriousMatch is spuriousMatch for other engines.
func SpuriousMatch(p []string, trees ...*model.Node) bool { return spuriousMatch(p, trees...) }

func spuriousMatch(p []string, trees ...*model.Node) bool {
	found := false
	for _, t := range trees {
		t.Walk(func(_ *model.Node, segs []model.Seg) {
			if found || len(segs) < len(p) || len(segs) == 0 {
				return
			}
			q := make([]string, len(segs))
			for i, s := range segs {
				q[i] = s.String()
			}
			eq := func(ps, qs string) bool {
				if ps == qs {
					return true
				}
				_, err := strconv.Atoi(qs)
				return ps == "*" && err == nil
			}
			if !eq(p[len(p)-1], q[len(q)-1]) {
				return
			}
			same := len(q) == len(p)
			if same {
				for i := range p {
					if !eq(p[i], q[i]) {
						same = false
					}
				}
				if same {
					return
				}
			}
			// p[:-1] subsequence of q[:-1]?
			j := 0
			for i := 0; i < len(q)-1 && j < len(p)-1; i++ {
				if eq(p[j], q[i]) {
					j++
				}
			}
			if j == len(p)-1 {
				found = true
			}
		})
	}
	return found
}

// maxList is the length of the longest list in a tree.
func maxList(n *model.Node) int {
	m := 0
	n.Walk(func(x *model.Node, _ []model.Seg) {
		if len(x.A) > m {
			m = len(x.A)
		}
	})
	return m
}

// clash reports whether merging b into a would create a node with both parts.
func clash(a, b *model.Node) bool {
	if a.K != model.KSub || b.K != model.KSub {
		return false
	}
	if (len(a.D) > 0 || a.Sticky&1 != 0) && len(b.A) > 0 {
		return true
	}
	if (len(a.A) > 0 || a.Sticky&2 != 0) && len(b.D) > 0 {
		return true
	}
	for k, bc := range b.D {
		if ac, ok := a.D[k]; ok && clash(ac, bc) {
			return true
		}
	}
	// index-wise / any list policy: elements may be merged pairwise under default
	for i, bc := range b.A {
		if i < len(a.A) && clash(a.A[i], bc) {
			return true
		}
	}
	return false
}

func (w *W) setCall(h *Handle, a Addr, v *model.Node) (string, error) {
	var err error
	var desc string
	switch v.K {
	case model.KBool:
		desc = fmt.Sprintf("SetBool(%v)", v.B)
		w.R.MustComplete("SetBool", func() { err = h.C.SetBool(a.Name, a.Idx, v.B, w.Opts...) })
	case model.KInt:
		if v.Neg || w.R.T.Bool("setint-for-positive") {
			i := v.I
			if !v.Neg {
				i = int64(v.U)
			}
			desc = fmt.Sprintf("SetInt(%d)", i)
			w.R.MustComplete("SetInt", func() { err = h.C.SetInt(a.Name, a.Idx, i, w.Opts...) })
		} else {
			desc = fmt.Sprintf("SetUint(%d)", v.U)
			w.R.MustComplete("SetUint", func() { err = h.C.SetUint(a.Name, a.Idx, v.U, w.Opts...) })
		}
	case model.KFloat:
		desc = fmt.Sprintf("SetFloat(%v)", v.F)
		w.R.MustComplete("SetFloat", func() { err = h.C.SetFloat(a.Name, a.Idx, v.F, w.Opts...) })
	case model.KStr:
		desc = fmt.Sprintf("SetString(%q)", v.S)
		w.R.MustComplete("SetString", func() { err = h.C.SetString(a.Name, a.Idx, v.S, w.Opts...) })
	default:
		panic("harness: setCall with non-primitive")
	}
	return desc, err
}

// legalWriteAddr draws a write address whose status is Found or Absent.
func (w *W) legalWriteAddr(h *Handle) (Addr, bool) {
	for try := 0; try < 4; try++ {
		segs := w.genAddr(h.M, 3)
		st := h.M.SetStatus(segs)
		if st != model.Found && st != model.Absent {
			continue
		}
		a, ok := w.spell(segs)
		if ok {
			return a, true
		}
	}
	return Addr{}, false
}

func (w *W) opSet() string {
	h := w.pick(w.live(), "set-handle")
	if h.M.K != model.KSub {
		return ""
	}
	a, ok := w.legalWriteAddr(h)
	if !ok {
		return ""
	}
	v := w.G.Prim()
	old, st := h.M.Lookup(a.Segs)
	desc, err := w.setCall(h, a, v)
	w.R.Tracef("h%d.%s at %s [%s]", h.ID, desc, a, model.PathString(a.Segs, "."))
	if err != nil {
		w.checkErrTyped(err, "Set")
		w.fail("op-result", "Set", nil, "write at legal address %s (%s) failed: %v", a, model.PathString(a.Segs, "."), err)
		return ""
	}
	if st == model.Found && old.K == model.KSub {
		w.R.Probe("set: primitive replaces a container")
	}
	if last := a.Segs[len(a.Segs)-1]; last.IsIdx {
		if p, pst := h.M.Lookup(a.Segs[:len(a.Segs)-1]); pst == model.Found && p.K == model.KSub && last.Idx > len(p.A) {
			w.R.Probe("set: write past the end pads with nils")
		}
	}
	h.M.Set(a.Segs, v)
	w.R.StateOps++
	return "Set"
}

func (w *W) opSetChild() string {
	h := w.pick(w.live(), "setchild-handle")
	if h.M.K != model.KSub {
		return ""
	}
	a, ok := w.legalWriteAddr(h)
	if !ok {
		return ""
	}
	var c *ucfg.Config
	var err error
	var tree *model.Node
	var existing *Handle
	kind := w.R.T.Weighted([]int{4, 1, 1}, "setchild-kind")
	switch kind {
	case 1:
		// another root of the pool moves into this tree (the caller keeps its handle)
		var cands []*Handle
		for _, r := range w.roots() {
			if r.M != h.M.Root() && r.M.K == model.KSub {
				cands = append(cands, r)
			}
		}
		existing = w.pick(cands, "setchild-root")
	case 2:
		// a config that was attached elsewhere and has been removed / replaced there
		// (known finding O11 concerns a config attached to two parents at once - not generated: a
		// config that was taken out of its tree is a root again, since the O76 repair)
		if (w.F.MoveBias || w.F.Reattach) && len(w.detached) > 0 {
			existing = w.detached[w.R.T.Choose(len(w.detached), "setchild-detached")]
			w.detached = nil
		}
	}
	if existing != nil {
		c, tree = existing.C, existing.M
		w.R.Tracef("h%d.SetChild at %s [%s] := h%d (existing config, %s) %s", h.ID, a, model.PathString(a.Segs, "."), existing.ID, map[int]string{1: "a root", 2: "was attached elsewhere"}[kind], tree.Canon())
		w.opDetail = map[string]string{"reattach": fmt.Sprint(kind == 2)}
	} else {
		tree = w.G.Container()
		in := Render(tree, RepGeneric, w.Opts)
		topLevel(tree)
		w.R.MustComplete("NewFrom", func() { c, err = ucfg.NewFrom(in, w.Opts...) })
		if err != nil {
			w.fail("op-result", "NewFrom", nil, "NewFrom failed on a valid input: %v", err)
			return ""
		}
		w.R.Tracef("h%d.SetChild at %s [%s] := h%d %s", h.ID, a, model.PathString(a.Segs, "."), w.nextID+1, tree.Canon())
	}
	w.R.MustComplete("SetChild", func() { err = h.C.SetChild(a.Name, a.Idx, c, w.Opts...) })
	if err != nil {
		w.checkErrTyped(err, "SetChild")
		w.fail("op-result", "SetChild", nil, "SetChild at legal address %s failed: %v", a, err)
		return ""
	}
	tree.Detached = false
	h.M.Set(a.Segs, tree)
	if existing == nil {
		w.addHandle(c, tree)
	} else {
		existing.Dead = false
		found := false
		for _, x := range w.H {
			if x == existing {
				found = true
			}
		}
		if !found {
			w.H = append(w.H, existing)
		}
		w.R.Probe("setchild: an existing config (root or formerly attached) is attached")
	}
	w.R.StateOps++
	w.R.Probe("setchild: caller keeps a live handle to the attached config")
	return "SetChild"
}

func (w *W) opRemove() string {
	t := w.R.T
	h := w.pick(w.live(), "remove-handle")
	if h.M.K != model.KSub {
		return ""
	}
	var a Addr
	ok := false
	for try := 0; try < 4 && !ok; try++ {
		segs := w.genAddr(h.M, 3)
		if w.F.MoveBias && t.Chance(2, 3, "remove-bias-list") {
			// prefer an element in the front or middle of a list with >= 2 elements
			var cands [][]model.Seg
			h.M.Walk(func(x *model.Node, s []model.Seg) {
				if x.PureList() && len(x.A) >= 2 && len(s) < 3 {
					cands = append(cands, s)
				}
			})
			if len(cands) > 0 {
				base := cands[t.Choose(len(cands), "remove-list")]
				l, _ := h.M.Lookup(base)
				if l == nil || len(l.A) < 2 {
					continue
				}
				segs = append(append([]model.Seg{}, base...), model.I(t.Choose(len(l.A)-1, "remove-idx")))
			}
		}
		// classify: the parent chain must be legal
		if _, st := h.M.Lookup(segs[:len(segs)-1]); st == model.KindClash || st == model.ThroughPrim {
			continue
		}
		if p, st := h.M.Lookup(segs[:len(segs)-1]); st == model.Found {
			last := segs[len(segs)-1]
			if p.K != model.KSub && p.K != model.KNil {
				continue // removing below a primitive: illegal-address domain
			}
			if p.K == model.KSub {
				if last.IsIdx && (len(p.D) > 0 || p.Sticky&1 != 0) {
					continue
				}
				if !last.IsIdx && (len(p.A) > 0 || p.Sticky&2 != 0) {
					continue
				}
			}
		}
		a, ok = w.spell(segs)
	}
	if !ok {
		return ""
	}
	var removed bool
	var err error
	w.R.Tracef("h%d.Remove%s [%s]", h.ID, a, model.PathString(a.Segs, "."))
	w.R.MustComplete("Remove", func() { removed, err = h.C.Remove(a.Name, a.Idx, w.Opts...) })
	if err != nil {
		w.checkErrTyped(err, "Remove")
		w.fail("op-result", "Remove", nil, "Remove at legal address %s failed: %v", a, err)
		return ""
	}
	// reach probes
	if p, st := h.M.Lookup(a.Segs[:len(a.Segs)-1]); st == model.Found && p.K == model.KSub {
		last := a.Segs[len(a.Segs)-1]
		if last.IsIdx && last.Idx < len(p.A)-1 {
			w.R.Probe("remove: shifted >= 1 later list element")
			for _, x := range w.live() {
				for i := last.Idx + 1; i < len(p.A); i++ {
					if x.M.Below(p.A[i]) {
						w.R.Probe("remove: shifted an element that has a live handle")
					}
				}
			}
		}
	}
	want := h.M.Remove(a.Segs)
	if removed != want {
		w.fail("op-result", "Remove", nil, "Remove%s returned %v, the reference tree says %v", a, removed, want)
	}
	if want {
		w.R.StateOps++
	}
	return "Remove"
}

func (w *W) opChild() string {
	h := w.pick(w.live(), "child-handle")
	if h.M.K != model.KSub {
		return ""
	}
	// pick an existing container below h
	var cands [][]model.Seg
	h.M.Walk(func(x *model.Node, s []model.Seg) {
		if x.K == model.KSub && len(s) > 0 && len(s) <= 3 {
			if _, st := h.M.Lookup(s); st == model.Found {
				cands = append(cands, s)
			}
		}
	})
	if len(cands) == 0 {
		return ""
	}
	segs := cands[w.R.T.Choose(len(cands), "child-addr")]
	a, ok := w.spell(segs)
	if !ok {
		return ""
	}
	n, _ := h.M.Lookup(segs)
	var c *ucfg.Config
	var err error
	w.R.Tracef("h%d := h%d.Child%s [%s]", w.nextID+1, h.ID, a, model.PathString(a.Segs, "."))
	w.R.MustComplete("Child", func() { c, err = h.C.Child(a.Name, a.Idx, w.Opts...) })
	if err != nil {
		w.checkErrTyped(err, "Child")
		w.fail("read", "Child", nil, "Child%s of an existing container failed: %v", a, err)
		return ""
	}
	w.addHandle(c, n)
	w.R.Probe("child: handle is a live view of a sub-tree")
	return "Child"
}

// opRead performs a handful of reads at drawn addresses and compares each
// with the reference tree; every read must leave the internal state untouched.
func (w *W) opRead() string {
	t := w.R.T
	h := w.pick(w.live(), "read-handle")
	if h.M.K != model.KSub {
		return ""
	}
	if w.F.Prop == "C12" && w.Sep == "." && t.Chance(1, 8, "literal-key-probe") {
		w.literalKeyProbe(h)
	}
	if (w.F.Prop == "C12" || w.F.Prop == "C15") && t.Chance(1, 8, "second-attachment-probe") {
		w.aliasProbe(h)
	}
	if w.F.Prop == "C10" && t.Chance(1, 10, "collector-probe") {
		w.collectorProbe()
	}
	if (w.F.Prop == "C12" || w.F.Prop == "C01" || w.F.Prop == "C10") && t.Chance(1, 12, "shared-section-merge-probe") {
		w.sharedMergeProbe()
	}
	root := w.rootOf(h)
	var before uint64
	if root != nil {
		before = fp.Fingerprint(root.C)
	}
	n := 1 + t.Choose(3, "n-reads")
	for i := 0; i < n; i++ {
		wm := 0
		if w.F.Prop == "C14" {
			wm = 6
		}
		switch t.Weighted([]int{5, 2, 1, 1, 1, wm}, "read-kind") {
		case 5:
			w.readMismatch(h)
		case 0:
			w.readAddr(h)
		case 1:
			w.readCount(h)
		case 2:
			w.readFields(h)
		case 3:
			w.readDiff(h)
		case 4:
			w.readKind(h)
		}
	}
	if root != nil {
		if after := fp.Fingerprint(root.C); after != before {
			w.fail("read-pure", "Read", nil, "read operations changed the internal state of the config")
		}
	}
	return "Read"
}

// literalKeyProbe: a key that holds the separator as part of its name (written by a call without
// the PathSep option) lives beside the settings addressed by the same string as a path. Reads with
// the separator address the path, whatever literal key exists; the key is removed again, so the
// tree is as before.
func (w *W) literalKeyProbe(h *Handle) {
	if h.M.K != model.KSub || len(h.M.A) > 0 || h.M.Sticky&2 != 0 {
		return
	}
	t := w.R.T
	x, y := Names[t.Choose(len(Names), "literal-x")], Names[t.Choose(len(Names), "literal-y")]
	literal := x + "." + y
	var err error
	w.R.MustComplete("SetInt", func() { err = h.C.SetInt(literal, -1, 7777) })
	if err != nil {
		w.fail("op-result", "SetInt", nil, "SetInt(%q) without a path separator failed: %v", literal, err)
		return
	}
	h.M.Sticky |= 1 // the node has held a named entry now (kind discipline, Appendix A)
	w.R.Probe("read: a literal key holding the separator exists beside the path of the same spelling")
	segs := []model.Seg{model.N(x), model.N(y)}
	_, st := h.M.Lookup(segs)
	var got int64
	var gerr error
	var has bool
	var herr error
	w.R.MustComplete("Int", func() { got, gerr = h.C.Int(literal, -1, w.Opts...) })
	w.R.MustComplete("Has", func() { has, herr = h.C.Has(literal, -1, w.Opts...) })
	w.R.Tracef("h%d: literal key %q = 7777 set without PathSep; with PathSep Int = %d, %v; Has = %v, %v (model: %s)", h.ID, literal, got, gerr, has, herr, st)
	if gerr == nil && got == 7777 {
		w.fail("read", "Int", nil, "Int(%q) with PathSep(\".\") returned the value of the literal key %q instead of addressing the path %s.%s (reference tree: %s)", literal, literal, x, y, st)
	}
	if st == model.Found || st == model.Absent {
		if herr == nil && has != (st == model.Found) {
			w.fail("read", "Has", nil, "Has(%q) with PathSep(\".\") = %v while the path %s.%s is %s in the reference tree (a literal key %q exists beside it)", literal, has, x, y, st, literal)
		}
	}
	var removed bool
	w.R.MustComplete("Remove", func() { removed, err = h.C.Remove(literal, -1) })
	if err != nil || !removed {
		w.fail("op-result", "Remove", nil, "Remove(%q) without a path separator = %v, %v", literal, removed, err)
	}
}

// aliasProbe: a config that is part of a tree is attached at a second place (SetChild with a
// child handle: "the caller keeps a live handle"). A child config is a live view in both
// directions: what is written through the handle is read at the second place, what is written there
// is read through the handle. The second attachment and the two settings are removed again, so the
// tree is as before. (What Path and Parent of such a config say is known finding O11, C15's
// business; only values are observed here.)
func (w *W) aliasProbe(h *Handle) {
	if h.M.K != model.KSub || h.M.Parent == nil || !h.M.PureDict() {
		return
	}
	var roots []*Handle
	for _, r := range w.roots() {
		if r.M.PureDict() {
			roots = append(roots, r)
		}
	}
	r := w.pick(roots, "second-parent")
	if r == nil {
		return
	}
	for _, k := range []string{"zzal", "zzw", "zzv"} {
		if _, taken := r.M.D[k]; taken {
			return
		}
		if _, taken := h.M.D[k]; taken {
			return
		}
	}
	var err error
	w.R.MustComplete("SetChild", func() { err = r.C.SetChild("zzal", -1, h.C, w.Opts...) })
	if err != nil {
		w.fail("op-result", "SetChild", nil, "SetChild of a child handle at a second place (\"zzal\" of a root) failed: %v", err)
		return
	}
	w.R.Probe("setchild: a config that is part of a tree is attached at a second place")
	var got int64
	var ch *ucfg.Config
	w.R.MustComplete("SetInt", func() { err = h.C.SetInt("zzw", -1, 4242, w.Opts...) })
	if err == nil {
		w.R.MustComplete("Child", func() { ch, err = r.C.Child("zzal", -1, w.Opts...) })
	}
	if err == nil {
		w.R.MustComplete("Int", func() { got, err = ch.Int("zzw", -1, w.Opts...) })
	}
	w.R.Tracef("h%d attached a second time as h%d.zzal; h%d.zzw := 4242; h%d.zzal.zzw = %d, %v", h.ID, r.ID, h.ID, r.ID, got, err)
	if err != nil || got != 4242 {
		w.fail("state", "SetChild", map[string]string{"alias": "true"}, "a config attached at a second place is no live view: written through the caller's handle (zzw = 4242), read at the second place: %d, %v", got, err)
	} else {
		w.R.MustComplete("SetInt", func() { err = ch.SetInt("zzv", -1, 4343, w.Opts...) })
		if err == nil {
			w.R.MustComplete("Int", func() { got, err = h.C.Int("zzv", -1, w.Opts...) })
		}
		if err != nil || got != 4343 {
			w.fail("state", "SetChild", map[string]string{"alias": "true"}, "a config attached at a second place is no live view: written at the second place (zzv = 4343), read through the caller's handle: %d, %v", got, err)
		}
	}
	// restore
	w.R.MustComplete("Remove", func() { r.C.Remove("zzal", -1, w.Opts...) })
	w.R.MustComplete("Remove", func() { h.C.Remove("zzw", -1, w.Opts...) })
	w.R.MustComplete("Remove", func() { h.C.Remove("zzv", -1, w.Opts...) })
	w.R.StateOps++
}

func (w *W) readAddr(h *Handle) {
	segs := w.genAddr(h.M, 3)
	a, ok := w.spell(segs)
	if !ok {
		return
	}
	n, st := h.M.LookupRead(segs)
	if st == model.KindClash {
		return
	}
	var has bool
	var herr error
	w.R.MustComplete("Has", func() { has, herr = h.C.Has(a.Name, a.Idx, w.Opts...) })
	w.checkErrTyped(herr, "Has")
	w.R.Tracef("h%d.Has%s [%s] = %v,%v (model: %s)", h.ID, a, model.PathString(segs, "."), has, herr, st)
	switch st {
	case model.Found:
		if !has || herr != nil {
			w.fail("read", "Has", nil, "Has%s = %v, %v but the setting exists (%s)", a, has, herr, n.Canon())
		}
	case model.Absent:
		if has || herr != nil {
			w.fail("read", "Has", nil, "Has%s = %v, %v but nothing is stored there", a, has, herr)
		}
	case model.ThroughPrim:
		if has {
			w.fail("read", "Has", nil, "Has%s = true for an address that steps through a primitive", a)
		}
	}
	// typed getter
	var err error
	kind := model.KNil
	if st == model.Found {
		kind = n.K
	} else {
		kind = []model.Kind{model.KBool, model.KInt, model.KFloat, model.KStr, model.KSub}[w.R.T.Choose(5, "getter-kind")]
	}
	var got string
	op := ""
	switch kind {
	case model.KBool:
		op = "Bool"
		var b bool
		w.R.MustComplete(op, func() { b, err = h.C.Bool(a.Name, a.Idx, w.Opts...) })
		got = strconv.FormatBool(b)
	case model.KInt:
		if st == model.Found && !n.Neg {
			op = "Uint"
			var u uint64
			w.R.MustComplete(op, func() { u, err = h.C.Uint(a.Name, a.Idx, w.Opts...) })
			got = strconv.FormatUint(u, 10)
		} else {
			op = "Int"
			var i int64
			w.R.MustComplete(op, func() { i, err = h.C.Int(a.Name, a.Idx, w.Opts...) })
			got = strconv.FormatInt(i, 10)
		}
	case model.KFloat:
		op = "Float"
		var f float64
		w.R.MustComplete(op, func() { f, err = h.C.Float(a.Name, a.Idx, w.Opts...) })
		got = model.CanonValue(f)
	case model.KStr:
		op = "String"
		var s string
		w.R.MustComplete(op, func() { s, err = h.C.String(a.Name, a.Idx, w.Opts...) })
		got = strconv.Quote(s)
	case model.KSub:
		op = "Child"
		var c *ucfg.Config
		w.R.MustComplete(op, func() { c, err = h.C.Child(a.Name, a.Idx, w.Opts...) })
		if err == nil && st == model.Found {
			v, uerr := w.unpackGeneric(c, "Unpack")
			if uerr != nil {
				err = uerr
			}
			got = model.CanonValue(v)
		}
	case model.KNil:
		return
	}
	w.checkErrTyped(err, op)
	w.R.Tracef("h%d.%s%s = %s, %v", h.ID, op, a, got, err)
	switch st {
	case model.Found:
		if err != nil {
			w.fail("read", op, nil, "%s%s failed although the setting exists with that kind (%s): %v", op, a, n.Canon(), err)
		} else if got != n.Canon() {
			w.fail("read", op, nil, "%s%s = %s, the reference tree holds %s", op, a, got, n.Canon())
		}
	default:
		if err == nil {
			w.fail("read", op, nil, "%s%s succeeded (%s) although the address is %s", op, a, got, st)
		} else if st == model.Absent {
			w.R.Fault("read of an absent setting")
		} else {
			w.R.Fault("read through a primitive")
		}
	}
}

func (w *W) readCount(h *Handle) {
	ks := h.M.Keys()
	if len(ks) == 0 || len(h.M.A) > 0 {
		return
	}
	k := ks[w.R.T.Choose(len(ks), "count-key")]
	c := h.M.D[k]
	// with a path separator the name may be a dotted path (the documentation of CountField lists PathSep)
	for depth := 0; depth < 2 && w.Sep != "" && c.PureDict() && w.R.T.Chance(1, 2, "count-dotted"); depth++ {
		kks := c.Keys()
		kk := kks[w.R.T.Choose(len(kks), "count-key-below")]
		k, c = k+w.Sep+kk, c.D[kk]
		w.R.Probe("count: CountField with a dotted path")
	}
	want := -1
	switch {
	case c.K == model.KNil:
		want = 0
	case c.K != model.KSub:
		want = 1
	case c.PureList():
		want = len(c.A)
	case c.PureDict():
		want = 1
	case c.Empty() && c.Sticky == 2:
		// a list that has only ever been a list and has lost all its elements: 0 entries
		want = 0
		w.R.Probe("count: list emptied by removals / empty list")
	default:
		return
	}
	var got int
	var err error
	w.R.MustComplete("CountField", func() { got, err = h.C.CountField(k, w.Opts...) })
	w.checkErrTyped(err, "CountField")
	if err != nil || got != want {
		w.fail("read", "CountField", nil, "CountField(%q) = %d, %v; the reference tree says %d", k, got, err, want)
	}
}

func (w *W) readFields(h *Handle) {
	var got []string
	w.R.MustComplete("GetFields", func() { got = h.C.GetFields() })
	sort.Strings(got)
	want := h.M.Keys()
	if strings.Join(got, ",") != strings.Join(want, ",") {
		w.fail("read", "GetFields", nil, "GetFields = %v, the reference tree has %v", got, want)
	}
	for _, k := range Names {
		_, in := h.M.D[k]
		if h.C.HasField(k) != in {
			w.fail("read", "HasField", nil, "HasField(%q) = %v, the reference tree says %v", k, !in, in)
		}
	}
}

func (w *W) readKind(h *Handle) {
	if h.M.PureDict() && !h.C.IsDict() {
		w.fail("read", "IsDict", nil, "IsDict() = false on a node with dictionary entries")
	}
	if h.M.PureList() && !h.C.IsArray() {
		w.fail("read", "IsArray", nil, "IsArray() = false on a node with list entries")
	}
	var n int
	var err error
	w.R.MustComplete("CountField", func() { n, err = h.C.CountField("") })
	if err != nil || n != len(h.M.D)+len(h.M.A) {
		w.fail("read", "CountField", nil, "CountField(\"\") = %d, %v; the reference tree has %d entries", n, err, len(h.M.D)+len(h.M.A))
	}
}

// readMismatch reads a primitive setting with a getter of the wrong kind: the
// conversion must fail with a typed error that names the full path of exactly
// that setting (C14) - which depends on the leaf's positional metadata having
// survived the history so far.
func (w *W) readMismatch(h *Handle) {
	var leaves [][]model.Seg
	h.M.Walk(func(x *model.Node, s []model.Seg) {
		if (x.K != model.KSub || (x.PureDict() && len(x.D) > 0)) && len(s) > 0 && len(s) <= 3 {
			// (a dictionary read with a primitive getter: the failure is reported against the object)
			if _, st := h.M.Lookup(s); st == model.Found {
				leaves = append(leaves, s)
			}
		}
	})
	if len(leaves) == 0 || hasMixed(h.M.Root()) {
		return
	}
	segs := leaves[w.R.T.Choose(len(leaves), "mismatch-leaf")]
	a, ok := w.spell(segs)
	if !ok {
		return
	}
	n, _ := h.M.Lookup(segs)
	var err error
	op := "Int"
	switch n.K {
	case model.KSub:
		w.R.MustComplete(op, func() { _, err = h.C.Int(a.Name, a.Idx, w.Opts...) })
		w.R.Probe("read: primitive getter on a dictionary")
	case model.KBool, model.KStr, model.KNil:
		w.R.MustComplete(op, func() { _, err = h.C.Int(a.Name, a.Idx, w.Opts...) })
	default:
		op = "Bool"
		w.R.MustComplete(op, func() { _, err = h.C.Bool(a.Name, a.Idx, w.Opts...) })
	}
	w.R.Fault("getter of the wrong kind on a primitive setting")
	want := n.Path(".")
	w.R.Tracef("h%d.%s%s on a %s setting %s = %v (path %s)", h.ID, op, a, n.K, n.Canon(), err, want)
	if err == nil {
		if n.K == model.KStr {
			return // (a string that happens to parse)
		}
		w.fail("error-names", op, nil, "%s%s on a %s setting succeeded", op, a, n.K)
		return
	}
	w.checkErrTyped(err, op)
	msg := err.Error()
	tok := regexp.MustCompile(`(^|[^A-Za-z0-9_.])` + regexp.QuoteMeta(want) + `($|[^A-Za-z0-9_.])`)
	if !tok.MatchString(msg) {
		w.fail("error-names", op, map[string]string{"want": want, "msg": msg}, "%s%s failed as it must, but the error does not name the setting's path %q: %s", op, a, want, msg)
	}
	srcKnown := n.Src != ""
	if n.K == model.KSub {
		// the source of a dictionary is known for sure only when all of it came from one input:
		// every setting below it carries the same source, and at least one of them is not null
		leaf := false
		n.Walk(func(x *model.Node, _ []model.Seg) {
			if x.Src != n.Src {
				srcKnown = false
			}
			if x.K != model.KSub && x.K != model.KNil {
				leaf = true
			}
		})
		srcKnown = srcKnown && leaf
	}
	if srcKnown && !strings.Contains(msg, n.Src) {
		w.fail("error-names", op, map[string]string{"want": n.Src, "msg": msg}, "%s%s failed as it must, but the error does not mention the source %q the setting was loaded with: %s", op, a, n.Src, msg)
	}
}

// readDiff compares two roots with diff.CompareConfigs (C15).
func (w *W) readDiff(h *Handle) {
	rs := w.roots()
	x := w.pick(rs, "diff-old")
	y := w.pick(rs, "diff-new")
	if x == nil || y == nil || hasMixed(x.M) || hasMixed(y.M) {
		return
	}
	var d diff.Diff
	w.R.MustComplete("CompareConfigs", func() { d = diff.CompareConfigs(x.C, y.C, w.Opts...) })
	ox, oy := x.M.Leaves(w.flatSep()), y.M.Leaves(w.flatSep())
	inx := map[string]bool{}
	for _, k := range ox {
		inx[k] = true
	}
	iny := map[string]bool{}
	for _, k := range oy {
		iny[k] = true
	}
	var keep, add, rem []string
	for _, k := range ox {
		if iny[k] {
			keep = append(keep, k)
		} else {
			rem = append(rem, k)
		}
	}
	for _, k := range oy {
		if !inx[k] {
			add = append(add, k)
		}
	}
	cmp := func(name string, got, want []string) {
		g := append([]string{}, got...)
		sort.Strings(g)
		sort.Strings(want)
		if strings.Join(g, ",") != strings.Join(want, ",") {
			w.fail("diff", "CompareConfigs", nil, "CompareConfigs(h%d, h%d): %s = %v, the reference trees give %v", x.ID, y.ID, name, g, want)
		}
	}
	cmp("kept", d[diff.Keep], keep)
	cmp("added", d[diff.Add], add)
	cmp("removed", d[diff.Remove], rem)
	if x == y && d.HasChanged() {
		w.fail("diff", "CompareConfigs", nil, "a config compared with itself reports a change")
	}
	w.R.Probe("diff: CompareConfigs evaluated")
}

// opIllegal issues an operation with an address that cannot be resolved: it
// must return an error (typed) and leave every observable state unchanged —
// the latter is checked by CheckAll against the unchanged reference tree.
func (w *W) opIllegal() string {
	t := w.R.T
	h := w.pick(w.live(), "illegal-handle")
	if h.M.K != model.KSub {
		return ""
	}
	if w.Sep != "" && t.Chance(1, 4, "illegal-index-beyond-the-maximum") {
		return w.opBeyondMax(h)
	}
	// find primitives below h and step through one
	var prims [][]model.Seg
	h.M.Walk(func(x *model.Node, s []model.Seg) {
		if x.K != model.KSub && x.K != model.KNil && len(s) > 0 && len(s) <= 2 {
			if _, st := h.M.Lookup(s); st == model.Found {
				prims = append(prims, s)
			}
		}
	})
	if len(prims) == 0 {
		return ""
	}
	base := prims[t.Choose(len(prims), "illegal-base")]
	segs := append(append([]model.Seg{}, base...), model.N(Names[t.Choose(len(Names), "illegal-name")]))
	if t.Bool("illegal-idx") {
		segs = append(append([]model.Seg{}, base...), model.I(1+t.Choose(2, "illegal-i")))
	}
	a, ok := w.spell(segs)
	if !ok {
		return ""
	}
	root := w.rootOf(h)
	before := fp.Fingerprint(root.C)
	var err error
	op := ""
	switch t.Choose(4, "illegal-op") {
	case 0:
		op = "SetInt"
		w.R.MustComplete(op, func() { err = h.C.SetInt(a.Name, a.Idx, 7, w.Opts...) })
	case 1:
		op = "Remove"
		w.R.MustComplete(op, func() { _, err = h.C.Remove(a.Name, a.Idx, w.Opts...) })
	case 2:
		op = "Int"
		w.R.MustComplete(op, func() { _, err = h.C.Int(a.Name, a.Idx, w.Opts...) })
	case 3:
		op = "SetChild"
		w.R.MustComplete(op, func() { err = h.C.SetChild(a.Name, a.Idx, ucfg.New(), w.Opts...) })
	}
	w.R.Tracef("h%d.%s%s [%s through a primitive] = %v", h.ID, op, a, model.PathString(segs, "."), err)
	w.R.Fault("operation with an address through a primitive")
	if err == nil && op != "Remove" {
		w.fail("op-result", op, nil, "%s%s through a primitive setting reported success", op, a)
	}
	if err != nil {
		if w.R.Avoid["O16"] && op == "Remove" {
			// known finding O16 is reported by its probe
		} else {
			w.checkErrTyped(err, op)
		}
	}
	if after := fp.Fingerprint(root.C); after != before {
		w.fail("frame", op, nil, "a failed %s%s changed the config", op, a)
	}
	return op
}

// opBeyondMax: a write with an explicit index beyond the maximum index, addressed through a dotted
// name whose intermediate settings may be missing: the write is refused and nothing is left behind
// (no half-built path, no padding nil turned into an object).
func (w *W) opBeyondMax(h *Handle) string {
	t := w.R.T
	n := 1 + t.Choose(3, "beyond-max-segments")
	parts := make([]string, n)
	for i := range parts {
		parts[i] = Names[t.Choose(len(Names), "beyond-max-name")]
		if i > 0 && t.Chance(1, 4, "beyond-max-index-segment") {
			parts[i] = strconv.Itoa(t.Choose(3, "beyond-max-i"))
		}
	}
	name := strings.Join(parts, w.Sep)
	idx := 1025 + t.Choose(3, "beyond-max-by")
	root := w.rootOf(h)
	before := fp.Fingerprint(root.C)
	var err error
	op := "SetString"
	if t.Bool("beyond-max-setchild") {
		op = "SetChild"
		w.R.MustComplete(op, func() { err = h.C.SetChild(name, idx, ucfg.New(), w.Opts...) })
	} else {
		w.R.MustComplete(op, func() { err = h.C.SetString(name, idx, "zz", w.Opts...) })
	}
	w.R.Tracef("h%d.%s(%q,%d) [index beyond the maximum] = %v", h.ID, op, name, idx, err)
	w.R.Fault("write with an index beyond the maximum index")
	if err == nil {
		w.fail("op-result", op, nil, "%s(%q, %d) with an index beyond the maximum index (1024) reported success", op, name, idx)
		return op
	}
	w.checkErrTyped(err, op)
	if after := fp.Fingerprint(root.C); after != before {
		w.fail("frame", op, nil, "a refused %s(%q, %d) changed the config (intermediate settings of the path were left behind)", op, name, idx)
	}
	return op
}
