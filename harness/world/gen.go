// Package world is engine E1: histories of operations over a pool of aliased
// configs, compared step by step with the reference tree (package model).
package world

import (
	"fmt"
	"reflect"
	"strconv"

	ucfg "github.com/elastic/go-ucfg"

	"harness/model"
	"harness/sim"
)

// Names is the small, overlapping alphabet of setting names.
var Names = []string{"a", "b", "c", "d"}

// Gen produces abstract trees, addresses and Go representations from the tape.
type Gen struct {
	R          *sim.R
	Ctr        int
	MaxDepth   int
	MaxWidth   int
	AllowNil   bool
	AllowEmpty bool
}

// Prim draws a primitive with a run-unique value.
func (g *Gen) Prim() *model.Node {
	g.Ctr++
	n := g.Ctr
	switch g.R.T.Choose(6, "prim-kind") {
	case 0:
		return model.Uint(uint64(100 + n))
	case 1:
		return model.Str("s" + strconv.Itoa(n))
	case 2:
		return model.Int(-int64(100 + n))
	case 3:
		return model.Float(float64(n) + 0.5)
	case 4:
		return model.Bool(n%2 == 0)
	default:
		return model.Str("t" + strconv.Itoa(n))
	}
}

// Value draws any node: primitive, nil, dictionary or list.
func (g *Gen) Value(depth int) *model.Node {
	w := []int{5, 2, 2, 0}
	if depth >= g.MaxDepth {
		w[1], w[2] = 0, 0
	}
	if g.AllowNil {
		w[3] = 1
	}
	switch g.R.T.Weighted(w, "value-kind") {
	case 1:
		return g.Dict(depth + 1)
	case 2:
		return g.List(depth + 1)
	case 3:
		return model.Nil()
	}
	return g.Prim()
}

// Dict draws a dictionary.
func (g *Gen) Dict(depth int) *model.Node {
	d := model.Dict()
	lo := 1
	if g.AllowEmpty {
		lo = 0
	}
	n := lo + g.R.T.Choose(g.MaxWidth-lo+1, "dict-width")
	for i := 0; i < n; i++ {
		k := Names[g.R.T.Choose(len(Names), "dict-key")]
		if _, dup := d.D[k]; dup {
			continue
		}
		d.SetD(k, g.Value(depth))
	}
	return d
}

// List draws a list.
func (g *Gen) List(depth int) *model.Node {
	l := model.List()
	lo := 1
	if g.AllowEmpty {
		lo = 0
	}
	n := lo + g.R.T.Choose(g.MaxWidth-lo+1, "list-len")
	for i := 0; i < n; i++ {
		l.Push(g.Value(depth))
	}
	return l
}

// Variant draws a tree of the same shape as n with other values: most names and positions of n
// exist in it too (some dropped, some added, lists a little shorter or longer), as in the layers
// of one application's configuration. Merging it into n meets a container on both sides at most
// paths, which is where merge policies differ.
func (g *Gen) Variant(n *model.Node) *model.Node {
	t := g.R.T
	switch {
	case n.K != model.KSub:
		if n.K == model.KNil && t.Bool("variant-keeps-nil") {
			return model.Nil()
		}
		return g.Prim()
	case n.Mixed():
		return n.Copy()
	case len(n.A) > 0 || (len(n.D) == 0 && n.Sticky&2 != 0):
		l := model.List()
		for _, c := range n.A {
			l.Push(g.Variant(c))
		}
		switch t.Weighted([]int{2, 1, 1}, "variant-list-length") {
		case 1:
			if len(l.A) > 1 {
				l.A = l.A[:len(l.A)-1]
			}
		case 2:
			if len(n.A) > 0 {
				l.Push(g.Variant(n.A[len(n.A)-1]))
			}
		}
		return l
	}
	d := model.Dict()
	for _, k := range n.Keys() {
		if len(k) != 1 || k[0] < 'a' || k[0] > 'd' {
			continue // (a name outside the alphabet of generated inputs, which the struct forms cannot spell)
		}
		if len(n.D) > 1 && t.Chance(1, 6, "variant-drops-key") {
			continue
		}
		d.SetD(k, g.Variant(n.D[k]))
	}
	if t.Chance(1, 5, "variant-adds-key") {
		k := Names[t.Choose(len(Names), "dict-key")]
		if _, dup := d.D[k]; !dup {
			d.SetD(k, g.Value(g.MaxDepth))
		}
	}
	return d
}

// Container draws a top-level tree (dictionary mostly, sometimes a list).
func (g *Gen) Container() *model.Node {
	if g.R.T.Chance(1, 6, "top-list") {
		return g.List(1)
	}
	return g.Dict(1)
}

// ---------------------------------------------------------------------------------------------
// Go representations of an abstract tree.

// Representation kinds.
const (
	RepGeneric  = iota // map[string]interface{} / []interface{}
	RepIfaceMap        // map[interface{}]interface{} for dictionaries
	RepConfig          // an existing *Config created from the generic form
	RepStruct          // a reflect.StructOf struct with fields A..D for dictionaries
	RepTyped           // typed maps/slices where the content is homogeneous
	RepCount
)

// RepName names a representation.
func RepName(rep int) string {
	return [...]string{"generic", "iface-map", "config", "struct", "typed"}[rep]
}

// leaf converts a primitive model node into the Go value given to the library.
func leaf(n *model.Node) interface{} {
	switch n.K {
	case model.KNil:
		return nil
	case model.KBool:
		return n.B
	case model.KInt:
		if n.Neg {
			return n.I
		}
		return n.U
	case model.KFloat:
		return n.F
	case model.KStr:
		return n.S
	}
	panic("leaf on container")
}

var ifaceType = reflect.TypeOf((*interface{})(nil)).Elem()

var abcdStruct = reflect.StructOf([]reflect.StructField{
	{Name: "A", Type: ifaceType},
	{Name: "B", Type: ifaceType},
	{Name: "C", Type: ifaceType},
	{Name: "D", Type: ifaceType},
})

// taggedStruct spells the dictionary {a, b, c, d} with every kind of field tag.
type taggedStruct struct {
	First interface{} `config:"a"`
	In    struct {
		B     interface{}
		Third interface{} `config:"c"`
	} `config:",inline"`
	D      *interface{} `config:"d"`
	Skip   string       `config:",ignore"`
	hidden int
}

// taggedCfgStruct spells the dictionary {a, b, c, d} with an inline *Config holding c and d
// (the package documentation lists *Config among the types an inline field may have).
type taggedCfgStruct struct {
	First interface{}  `config:"a"`
	B     interface{}  `config:"b"`
	Rest  *ucfg.Config `config:",inline"`
}

// LastStructForm names the struct form the last Render of a RepStruct dictionary chose (reach probe).
var LastStructForm string

// Render builds the Go value for n in representation rep. Nested containers
// use the generic form except where the representation says otherwise.
// opts are the options the value will be normalised with (needed for RepConfig).
func Render(n *model.Node, rep int, opts []ucfg.Option) interface{} {
	if n.K != model.KSub {
		return leaf(n)
	}
	switch rep {
	case RepIfaceMap:
		if len(n.A) == 0 && !(len(n.D) == 0 && n.Sticky == 2) {
			m := map[interface{}]interface{}{}
			for _, k := range n.Keys() {
				m[k] = Render(n.D[k], rep, opts)
			}
			return m
		}
	case RepConfig:
		c, err := ucfg.NewFrom(Render(n, RepGeneric, opts), opts...)
		if err != nil {
			panic(fmt.Sprintf("harness: RepConfig NewFrom failed: %v", err))
		}
		return c
	case RepStruct:
		if len(n.A) == 0 && !(len(n.D) == 0 && n.Sticky == 2) {
			// (FitRep gives every struct source all four names: the form is chosen by how many of them
			// hold a value)
			set := 0
			for _, c := range n.D {
				if c.K != model.KNil {
					set++
				}
			}
			if set%3 == 0 {
				// ("a" and "b" as fields, the rest in an inline *Config)
				LastStructForm = "a, b and an inline *Config"
				rest := map[string]interface{}{}
				t := &taggedCfgStruct{}
				for _, k := range n.Keys() {
					x := Render(n.D[k], RepGeneric, opts)
					switch k {
					case "a":
						t.First = x
					case "b":
						t.B = x
					default:
						rest[k] = x
					}
				}
				c, err := ucfg.NewFrom(rest, opts...)
				if err != nil {
					panic(fmt.Sprintf("harness: inline Config of a struct source: %v", err))
				}
				t.Rest = c
				return t
			}
			if set%3 == 1 {
				// the tagged form: renamed, inline, pointer, ignored and unexported fields
				LastStructForm = "renamed, inline, pointer, ignored and unexported fields"
				t := &taggedStruct{Skip: "decoy", hidden: 7}
				for _, k := range n.Keys() {
					x := Render(n.D[k], RepGeneric, opts)
					switch k {
					case "a":
						t.First = x
					case "b":
						t.In.B = x
					case "c":
						t.In.Third = x
					case "d":
						if x != nil {
							t.D = &x
						}
					}
				}
				if set%2 == 1 {
					return t
				}
				return *t
			}
			LastStructForm = "plain fields A-D"
			v := reflect.New(abcdStruct).Elem()
			for _, k := range n.Keys() {
				f := v.FieldByName(string(rune('A' + (k[0] - 'a'))))
				x := Render(n.D[k], RepGeneric, opts)
				_ = x
				if x != nil {
					f.Set(reflect.ValueOf(x))
				}
			}
			return v.Interface()
		}
	case RepTyped:
		if len(n.A) == 0 && len(n.D) == 0 && n.Sticky == 2 {
			return []string(nil) // a typed nil slice is the empty list
		}
		if t := typed(n); t != nil {
			return t
		}
	}
	if rep == RepStruct || rep == RepConfig {
		// only the top level uses these forms
		rep = RepGeneric
	}
	if len(n.A) > 0 && len(n.D) == 0 {
		l := make([]interface{}, len(n.A))
		for i, c := range n.A {
			l[i] = Render(c, rep, opts)
		}
		return l
	}
	if len(n.A) == 0 && len(n.D) == 0 && n.Sticky == 2 {
		return []interface{}{} // an empty list is not an empty dictionary
	}
	if len(n.A) == 0 {
		m := map[string]interface{}{}
		for _, k := range n.Keys() {
			m[k] = Render(n.D[k], rep, opts)
		}
		return m
	}
	panic("harness: cannot render a mixed node as input")
}

// FitRep adjusts a tree to what a representation can express: a struct always
// carries all of its fields, so absent names become explicit nil settings.
func FitRep(n *model.Node, rep int) {
	if rep == RepStruct && n.K == model.KSub && len(n.A) == 0 && !(len(n.D) == 0 && n.Sticky == 2) {
		for _, k := range Names {
			if _, ok := n.D[k]; !ok {
				n.SetD(k, model.Nil())
			}
		}
	}
}

// typed renders homogeneous containers with typed maps / slices.
func typed(n *model.Node) interface{} {
	kind := model.Kind(-1)
	all := func(c *model.Node) bool {
		if c.K == model.KSub || c.K == model.KNil {
			return false
		}
		if kind == -1 {
			kind = c.K
		}
		return kind == c.K
	}
	if len(n.A) > 0 && len(n.D) == 0 {
		for _, c := range n.A {
			if !all(c) {
				return nil
			}
		}
		switch kind {
		case model.KStr:
			var l []string
			for _, c := range n.A {
				l = append(l, c.S)
			}
			return l
		case model.KFloat:
			var l []float64
			for _, c := range n.A {
				l = append(l, c.F)
			}
			return l
		case model.KBool:
			var l []bool
			for _, c := range n.A {
				l = append(l, c.B)
			}
			return l
		}
		return nil
	}
	if len(n.D) > 0 && len(n.A) == 0 {
		for _, k := range n.Keys() {
			if !all(n.D[k]) {
				return nil
			}
		}
		switch kind {
		case model.KStr:
			m := map[string]string{}
			for _, k := range n.Keys() {
				m[k] = n.D[k].S
			}
			return m
		case model.KFloat:
			m := map[string]float64{}
			for _, k := range n.Keys() {
				m[k] = n.D[k].F
			}
			return m
		}
	}
	return nil
}
