package world

import (
	ucfg "github.com/elastic/go-ucfg"
	"github.com/elastic/go-ucfg/cfgutil"

	"harness/fp"
	"harness/model"
)

// collectorProbe: cfgutil.Collector is Merge by another name (flag values are built on it): the
// configs added to a collector are sources - untouched by being added, by later additions and by
// writes into the collected config - and the collected config equals the sequential merge.
func (w *W) collectorProbe() {
	t := w.R.T
	var cands []*Handle
	for _, h := range w.live() {
		if h.M.K == model.KSub && !h.M.Empty() && !hasMixed(h.M) {
			cands = append(cands, h)
		}
	}
	src := w.pick(cands, "collector-first-source")
	if src == nil {
		return
	}
	root := w.rootOf(src)
	if root == nil {
		return
	}
	before := fp.Fingerprint(root.C)
	withBase := t.Chance(1, 3, "collector-with-base-config")
	var base *ucfg.Config
	if withBase {
		base = ucfg.New()
	}
	col := cfgutil.NewCollector(base, w.Opts...)
	var err error
	w.R.MustComplete("Collector.Add", func() { err = col.Add(src.C, nil) })
	if err != nil {
		w.fail("op-result", "Merge", nil, "Collector.Add of a config failed: %v", err)
		return
	}
	want := &model.Node{K: model.KSub}
	model.Merge(want, src.M.Copy(), model.MergeOpts{}, nil)
	// a second addition: a variant of the first (same shape, other values) or a fresh tree
	second := w.G.Variant(src.M)
	if clash(want, second) && !w.F.Mixed {
		second = nil
	}
	if second != nil {
		FitRep(second, RepGeneric)
		w.R.MustComplete("Collector.Add", func() { err = col.Add(ucfg.NewFrom(Render(second, RepGeneric, w.Opts), w.Opts...)) })
		if err != nil {
			w.fail("op-result", "Merge", nil, "Collector.Add of a second config failed: %v", err)
			return
		}
		model.Merge(want, second.Copy(), model.MergeOpts{}, nil)
	}
	w.R.Probe("merge: configs collected by a cfgutil.Collector")
	w.R.StateOps++
	w.R.Tracef("Collector(base=%v).Add(h%d) then Add(%v)", withBase, src.ID, second != nil)
	if after := fp.Fingerprint(root.C); after != before {
		w.fail("source-untouched", "Merge", map[string]string{"collector": "true"}, "adding config h%d to a cfgutil.Collector (and adding a second config after it) changed it: internal state differs before/after", src.ID)
		return
	}
	got := col.Config()
	if !want.Mixed() {
		g, uerr := w.unpackGeneric(got, "Unpack")
		if uerr != nil {
			w.fail("state", "Merge", nil, "Unpack of the collected config failed: %v", uerr)
			return
		}
		if gc, wc := model.CanonValue(g), want.Canon(); gc != wc {
			w.fail("state", "Merge", map[string]string{"got": gc, "want": wc, "collector": "true"}, "the config collected by a cfgutil.Collector unpacks to\n   %s\nbut merging the added configs in order gives\n   %s", gc, wc)
			return
		}
	}
	// a write into the collected config is invisible through the source
	w.R.MustComplete("SetString", func() { err = got.SetString("zzcol", -1, "w", w.Opts...) })
	if err == nil {
		if after := fp.Fingerprint(root.C); after != before {
			w.fail("share-nothing", "Merge", map[string]string{"collector": "true"}, "a write into the config collected by a cfgutil.Collector changed the first config added to it (h%d)", src.ID)
		}
	}
}
