package world

import (
	ucfg "github.com/elastic/go-ucfg"

	"harness/model"
)

// sharedMergeProbe: one section s held by two parents (SetChild twice - aliasing, the parent link
// of s names one of them only), then the holder h is merged into s. h contains s: what is merged is
// what h held when Merge was called, whichever parent the links of s lead to. A self-contained
// scenario on fresh configs (the world is not touched); only values are observed.
func (w *W) sharedMergeProbe() {
	t := w.R.T
	asList := t.Bool("shared-section-is-a-list")
	opts := []ucfg.Option{ucfg.PathSep(".")}
	s := ucfg.New()
	var sm *model.Node
	var err error
	n := 1 + t.Choose(2, "shared-section-size")
	if asList {
		sm = model.List()
		for i := 0; i < n; i++ {
			sm.Push(model.Int(int64(1 + i)))
			w.R.MustComplete("SetInt", func() { err = s.SetInt("", i, int64(1+i), opts...) })
		}
	} else {
		sm = model.Dict()
		for i := 0; i < n; i++ {
			k := string(rune('a' + i))
			sm.SetD(k, model.Int(int64(1+i)))
			w.R.MustComplete("SetInt", func() { err = s.SetInt(k, -1, int64(1+i), opts...) })
		}
	}
	if err != nil {
		panic("harness: shared section: " + err.Error())
	}
	// the two holders; which one is attached first decides where the parent link of s leads
	first := t.Bool("merged-holder-attached-first")
	other, holder := ucfg.New(), ucfg.New()
	hm := model.Dict()
	holderList := asList && t.Bool("holder-is-a-list")
	attach := func(c *ucfg.Config, isHolder bool) {
		if isHolder && holderList {
			w.R.MustComplete("SetChild", func() { err = c.SetChild("", 1, s, opts...) })
		} else if isHolder {
			w.R.MustComplete("SetChild", func() { err = c.SetChild("t", -1, s, opts...) })
		} else {
			w.R.MustComplete("SetChild", func() { err = c.SetChild("s", -1, s, opts...) })
		}
		if err != nil {
			w.fail("op-result", "SetChild", nil, "SetChild of a config at a second place failed: %v", err)
		}
	}
	if holderList {
		hm = model.List()
		w.R.MustComplete("SetInt", func() { err = holder.SetInt("", 0, 7, opts...) })
		hm.Push(model.Int(7))
	} else {
		// (keys that sort / hash on both sides of "t")
		for _, k := range []string{"x", "c"} {
			w.R.MustComplete("SetInt", func() { err = holder.SetInt(k, -1, 7, opts...) })
			hm.SetD(k, model.Int(7))
		}
	}
	if err != nil {
		panic("harness: holder: " + err.Error())
	}
	if first {
		attach(holder, true)
		attach(other, false)
	} else {
		attach(other, false)
		attach(holder, true)
	}
	if err != nil {
		return
	}
	if holderList {
		hm.Push(sm.Copy())
	} else {
		hm.SetD("t", sm.Copy())
	}
	pol := w.F.Policies[t.Choose(len(w.F.Policies), "shared-merge-policy")]
	mopts := append([]ucfg.Option{}, opts...)
	if o, ok := policyOpt[pol]; ok {
		mopts = append(mopts, o)
	}
	if clash(sm, hm) && !w.F.Mixed {
		return
	}
	w.R.Probe("merge: a holder is merged into a section it shares with a second parent")
	w.R.MustComplete("Merge", func() { err = s.Merge(holder, mopts...) })
	w.R.StateOps++
	w.R.Tracef("section %s held by two parents (merged holder attached first: %v); section.Merge(holder %s) under %s = %v", sm.Canon(), first, hm.Canon(), pol, err)
	if err != nil {
		w.fail("op-result", "Merge", nil, "Merge of a holder into the section it shares with a second parent failed: %v", err)
		return
	}
	model.Merge(sm, hm.Copy(), model.MergeOpts{Global: pol}, nil)
	if sm.Mixed() {
		return
	}
	want := sm.Canon()
	check := func(c *ucfg.Config, via string) {
		got, uerr := w.unpackGenericWith(c, opts)
		if uerr != nil {
			w.fail("state", "Merge", nil, "after merging a holder into the section it shares: Unpack %s failed: %v", via, uerr)
			return
		}
		if g := model.CanonValue(got); g != want {
			w.fail("state", "Merge", map[string]string{"got": g, "want": want, "shared_section": "true"},
				"after merging a holder into the section it shares with a second parent (policy %s): the section read %s unpacks to\n   %s\nbut merging what the holder held when Merge was called gives\n   %s", pol, via, g, want)
		}
	}
	check(s, "through the caller's handle")
	var ch *ucfg.Config
	w.R.MustComplete("Child", func() { ch, err = other.Child("s", -1, opts...) })
	if err != nil {
		w.fail("read", "Child", nil, "Child of the other parent failed after the merge: %v", err)
		return
	}
	check(ch, "through the other parent")
}

func (w *W) unpackGenericWith(c *ucfg.Config, opts []ucfg.Option) (interface{}, error) {
	var err error
	if c.IsArray() && !c.IsDict() {
		var l []interface{}
		w.R.MustComplete("Unpack", func() { err = c.Unpack(&l, opts...) })
		return l, err
	}
	var m map[string]interface{}
	w.R.MustComplete("Unpack", func() { err = c.Unpack(&m, opts...) })
	return m, err
}
