package world

import (
	"strconv"

	"harness/model"
)

// Known finding O12, delineated: the library walks its tree of per-field options along the path
// of the data; where a name or an index of the data is ABSENT from the option tree (and no "**"
// option exists) the walk does not leave the tree but stays where it is, so an option for "a.b"
// also governs "a.x.b". An index below the largest one named for the same list is present in the
// option tree as an empty placeholder: there the walk does end. otree mirrors just that much, to
// tell the merges the finding affects from those it does not.
type otree struct {
	d        map[string]*otree
	a        []*otree
	terminal int // 1 + number of the option ending here; 0 = none
}

func (t *otree) insert(path []string, opt int) {
	cur := t
	for _, s := range path {
		if i, err := strconv.Atoi(s); err == nil {
			for len(cur.a) <= i {
				cur.a = append(cur.a, nil)
			}
			if cur.a[i] == nil {
				cur.a[i] = &otree{}
			}
			cur = cur.a[i]
			continue
		}
		if cur.d == nil {
			cur.d = map[string]*otree{}
		}
		if cur.d[s] == nil {
			cur.d[s] = &otree{}
		}
		cur = cur.d[s]
	}
	cur.terminal = opt + 1
}

// governing: the option whose policy reaches the data node at path q - walking strictly (leaving
// the tree at the first absent segment) or as the library does (staying).
func (t *otree) governing(q []string, stay bool) int {
	cur, gov := t, 0
	for _, s := range q {
		if cur == nil {
			break
		}
		var next *otree
		present := false
		if i, err := strconv.Atoi(s); err == nil {
			if i < len(cur.a) {
				next, present = cur.a[i], true // (a nil placeholder: present, and the tree ends)
			}
		} else if c, ok := cur.d[s]; ok {
			next, present = c, true
		}
		switch {
		case present:
			cur = next
		case !stay:
			cur = nil
		}
		if cur != nil && present && cur.terminal != 0 {
			gov = cur.terminal
		}
	}
	return gov
}

// spuriousOptions: does some node of the operands get its policy from another option under the
// library's walk than under the strict one? Options through "every index" (*) are judged by the
// wider subsequence rule.
func spuriousOptions(fields []model.FieldOpt, trees ...*model.Node) bool {
	t := &otree{}
	for i, fo := range fields {
		if fo.Wild {
			continue
		}
		for _, s := range fo.Path {
			if s == "*" {
				if spuriousMatch(fo.Path, trees...) {
					return true
				}
			}
		}
		t.insert(fo.Path, i)
	}
	found := false
	for _, tr := range trees {
		tr.Walk(func(_ *model.Node, segs []model.Seg) {
			if found || len(segs) == 0 {
				return
			}
			q := make([]string, len(segs))
			for i, s := range segs {
				q[i] = s.String()
			}
			if t.governing(q, true) != t.governing(q, false) {
				found = true
			}
		})
	}
	return found
}
