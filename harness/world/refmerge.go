package world

import (
	"fmt"
	"sort"

	ucfg "github.com/elastic/go-ucfg"

	"harness/fp"
	"harness/model"
	"harness/sim"
)

// RefMerge is C10's case for destinations that hold references: a config created with VarExp in
// which some settings are references to sections of the same config is the destination of a Merge
// from another *Config. Merging over a reference works on the section it points to, so values of
// the source travel into parts of the destination the source never names. Whatever the resulting
// data (the properties leave the meaning of merging over a reference open), C10 holds: the source
// is untouched, and afterwards the two configs share no state. Only these two observations are
// made.
func RefMerge(r *sim.R) {
	t := r.T
	g := &Gen{R: r, MaxDepth: 1 + t.Choose(2, "max-depth"), MaxWidth: 1 + t.Choose(3, "max-width")}
	opts := []ucfg.Option{ucfg.PathSep("."), ucfg.VarExp}
	r.Order = t.Weighted([]int{3, 2, 2}, "order-policy")

	// destination: sections s0..sn-1 (dictionaries), and references to them (or into them)
	nsec := 1 + t.Choose(2, "n-sections")
	dstIn := map[string]interface{}{}
	var secs []*model.Node
	for i := 0; i < nsec; i++ {
		s := g.Dict(1)
		secs = append(secs, s)
		dstIn[fmt.Sprintf("s%d", i)] = Render(s, RepGeneric, nil)
	}
	nref := 1 + t.Choose(2, "n-refs")
	refTarget := map[string]string{}
	for i := 0; i < nref; i++ {
		sec := t.Choose(nsec, "ref-section")
		target := fmt.Sprintf("s%d", sec)
		// sometimes a reference to a dictionary below the section
		var subs []string
		for _, k := range secs[sec].Keys() {
			if c := secs[sec].D[k]; c.PureDict() {
				subs = append(subs, k)
			}
		}
		if len(subs) > 0 && t.Bool("ref-below-section") {
			target += "." + subs[t.Choose(len(subs), "ref-sub")]
		}
		name := fmt.Sprintf("r%d", i)
		dstIn[name] = "${" + target + "}"
		refTarget[name] = target
	}
	var dst, src *ucfg.Config
	var err error
	r.MustComplete("NewFrom", func() { dst, err = ucfg.NewFrom(dstIn, opts...) })
	if err != nil {
		r.Note("C02", "RefMerge: destination cannot be created: "+err.Error())
		return
	}

	// source: a *Config that defines dictionaries under the names of the references (and of a section)
	srcIn := map[string]interface{}{}
	names := make([]string, 0, len(refTarget))
	for n := range refTarget {
		names = append(names, n)
	}
	sort.Strings(names)
	for _, n := range names {
		if t.Chance(3, 4, "src-defines-ref") {
			srcIn[n] = Render(g.Dict(1), RepGeneric, nil)
		}
	}
	if t.Chance(1, 3, "src-defines-section") {
		srcIn["s0"] = Render(g.Dict(1), RepGeneric, nil)
	}
	if len(srcIn) == 0 {
		srcIn[names[0]] = Render(g.Dict(1), RepGeneric, nil)
	}
	r.MustComplete("NewFrom", func() { src, err = ucfg.NewFrom(srcIn, opts...) })
	if err != nil {
		return
	}
	pol := []ucfg.Option{nil, ucfg.ReplaceValues, ucfg.AppendValues, ucfg.PrependValues}[t.Choose(4, "policy")]
	mopts := opts
	if pol != nil {
		mopts = append(append([]ucfg.Option{}, opts...), pol)
	}
	r.Tracef("dst := NewFrom(%v, VarExp); src := NewFrom(%v, VarExp); dst.Merge(src, policy %d)", dstIn, srcIn, t.Used[len(t.Used)-1])

	before := fp.Fingerprint(src)
	r.MustComplete("Merge", func() { err = dst.Merge(src, mopts...) })
	r.StateOps++
	r.Probe("merge: destination holds references to its own sections")
	if err != nil {
		r.Tracef("Merge = %v", err)
	}
	if after := fp.Fingerprint(src); after != before {
		r.FailD("source-untouched", "Merge", map[string]string{"embed": "over-reference"}, "Merge over references changed its source: internal state differs before/after")
	}
	sh, serr := fp.Shared(dst, src)
	if serr != nil {
		r.Note("C10", "RefMerge: cannot enumerate nodes: "+serr.Error())
		return
	}
	if len(sh) > 0 {
		r.FailD("share-nothing", "Merge", map[string]string{"embed": "over-reference"}, "after a Merge over references destination and source share mutable state: %v", sh)
	}
}
