package world

import (
	"fmt"
	"sort"

	ucfg "github.com/elastic/go-ucfg"

	"harness/fp"
	"harness/model"
	"harness/sim"
)

// RefMerge is C10's case for destinations that hold references: a config created with VarExp in
// which some settings are references to sections of the same config is the destination of a Merge
// from another *Config. Merging over a reference works on the section it points to, so values of
// the source travel into parts of the destination the source never names. Whatever the resulting
// data (the properties leave the meaning of merging over a reference open), C10 holds: the source
// is untouched, and afterwards the two configs share no state. Only these two observations are
// made.
func RefMerge(r *sim.R) {
	t := r.T
	g := &Gen{R: r, MaxDepth: 1 + t.Choose(2, "max-depth"), MaxWidth: 1 + t.Choose(3, "max-width")}
	opts := []ucfg.Option{ucfg.PathSep("."), ucfg.VarExp}
	r.Order = t.Weighted([]int{3, 2, 2}, "order-policy")

	// destination: sections s0..sn-1 (dictionaries), and references to them (or into them)
	nsec := 1 + t.Choose(2, "n-sections")
	dstIn := map[string]interface{}{}
	var secs []*model.Node
	for i := 0; i < nsec; i++ {
		s := g.Dict(1)
		secs = append(secs, s)
		sec := Render(s, RepGeneric, nil).(map[string]interface{})
		if t.Chance(1, 3, "section-refers-to-itself") {
			// a setting of the section refers to the section: merging a source that does the same
			// leads back into the pair of objects that is being merged
			sec["back"] = fmt.Sprintf("${s%d}", i)
			r.Probe("merge: a section holds a reference to itself")
		}
		dstIn[fmt.Sprintf("s%d", i)] = sec
	}
	nref := 1 + t.Choose(2, "n-refs")
	refTarget := map[string]string{}
	for i := 0; i < nref; i++ {
		sec := t.Choose(nsec, "ref-section")
		target := fmt.Sprintf("s%d", sec)
		// sometimes a reference to a dictionary below the section
		var subs []string
		for _, k := range secs[sec].Keys() {
			if c := secs[sec].D[k]; c.PureDict() {
				subs = append(subs, k)
			}
		}
		if len(subs) > 0 && t.Bool("ref-below-section") {
			target += "." + subs[t.Choose(len(subs), "ref-sub")]
		}
		name := fmt.Sprintf("r%d", i)
		dstIn[name] = "${" + target + "}"
		refTarget[name] = target
	}
	var dst, src *ucfg.Config
	var err error
	r.MustComplete("NewFrom", func() { dst, err = ucfg.NewFrom(dstIn, opts...) })
	if err != nil {
		r.Note("C02", "RefMerge: destination cannot be created: "+err.Error())
		return
	}

	// source: a *Config that defines dictionaries under the names of the references (and of a section)
	srcIn := map[string]interface{}{}
	names := make([]string, 0, len(refTarget))
	for n := range refTarget {
		names = append(names, n)
	}
	sort.Strings(names)
	selfRef := func(name string) interface{} {
		d := Render(g.Dict(1), RepGeneric, nil).(map[string]interface{})
		if t.Chance(1, 3, "source-object-refers-to-itself") {
			d["back"] = "${" + name + "}"
		}
		return d
	}
	for _, n := range names {
		if t.Chance(3, 4, "src-defines-ref") {
			srcIn[n] = selfRef(n)
		}
	}
	if t.Chance(1, 3, "src-defines-section") {
		srcIn["s0"] = selfRef("s0")
	}
	if len(srcIn) == 0 {
		srcIn[names[0]] = Render(g.Dict(1), RepGeneric, nil)
	}
	r.MustComplete("NewFrom", func() { src, err = ucfg.NewFrom(srcIn, opts...) })
	if err != nil {
		return
	}
	pol := []ucfg.Option{nil, ucfg.ReplaceValues, ucfg.AppendValues, ucfg.PrependValues}[t.Choose(4, "policy")]
	mopts := opts
	if pol != nil {
		mopts = append(append([]ucfg.Option{}, opts...), pol)
	}
	r.Tracef("dst := NewFrom(%v, VarExp); src := NewFrom(%v, VarExp); dst.Merge(src, policy %d)", dstIn, srcIn, t.Used[len(t.Used)-1])

	before := fp.Fingerprint(src)
	r.MustComplete("Merge", func() { err = dst.Merge(src, mopts...) })
	r.StateOps++
	r.Probe("merge: destination holds references to its own sections")
	if err != nil {
		r.Tracef("Merge = %v", err)
	}
	if after := fp.Fingerprint(src); after != before {
		if r.Prop != "C10" {
			r.Note("C10", "source-untouched/Merge")
			return
		}
		r.FailD("source-untouched", "Merge", map[string]string{"embed": "over-reference"}, "Merge over references changed its source: internal state differs before/after")
	}
	sh, serr := fp.Shared(dst, src)
	if serr != nil {
		r.Note("C10", "RefMerge: cannot enumerate nodes: "+serr.Error())
		return
	}
	if len(sh) > 0 {
		if r.Prop != "C10" {
			r.Note("C10", "share-nothing/Merge")
			return
		}
		r.FailD("share-nothing", "Merge", map[string]string{"embed": "over-reference"}, "after a Merge over references destination and source share mutable state: %v", sh)
	}
}

// RefPolicy is C16's case for sources whose value under a named path is a reference: with VarExp
// a setting "${defaults}" of the source evaluates to a list (or dictionary) and is merged as one;
// the per-field policy named for its path applies to it like to a literal value.
func RefPolicy(r *sim.R) {
	t := r.T
	opts := []ucfg.Option{ucfg.PathSep("."), ucfg.VarExp}
	r.Order = t.Weighted([]int{3, 2, 2}, "order-policy")
	n := 1 + t.Choose(3, "old-len")
	m := 1 + t.Choose(3, "new-len")
	var old, nw []interface{}
	for i := 0; i < n; i++ {
		old = append(old, fmt.Sprintf("o%d", i))
	}
	for i := 0; i < m; i++ {
		nw = append(nw, fmt.Sprintf("n%d", i))
	}
	nested := t.Bool("nested-path")
	path := "p"
	dstIn := map[string]interface{}{"p": old, "keep": []interface{}{"k0", "k1"}}
	srcIn := map[string]interface{}{"defs": nw, "p": "${defs}", "keep": []interface{}{"x"}}
	if nested {
		path = "s.p"
		dstIn = map[string]interface{}{"s": map[string]interface{}{"p": old}, "keep": []interface{}{"k0", "k1"}}
		srcIn = map[string]interface{}{"defs": nw, "s": map[string]interface{}{"p": "${defs}"}, "keep": []interface{}{"x"}}
	}
	pol := t.Choose(4, "field-policy")
	mopts := append([]ucfg.Option{}, opts...)
	var want []interface{}
	switch pol {
	case 0:
		mopts = append(mopts, ucfg.FieldReplaceValues(path))
		want = nw
	case 1:
		mopts = append(mopts, ucfg.FieldAppendValues(path))
		want = append(append([]interface{}{}, old...), nw...)
	case 2:
		mopts = append(mopts, ucfg.FieldPrependValues(path))
		want = append(append([]interface{}{}, nw...), old...)
	default:
		// no option: index-wise, the longer tail survives
		want = append([]interface{}{}, nw...)
		if len(old) > len(nw) {
			want = append(want, old[len(nw):]...)
		}
	}
	var dst, src *ucfg.Config
	var err error
	r.MustComplete("NewFrom", func() { dst, err = ucfg.NewFrom(dstIn, opts...) })
	if err != nil {
		return
	}
	r.MustComplete("NewFrom", func() { src, err = ucfg.NewFrom(srcIn, opts...) })
	if err != nil {
		return
	}
	r.Tracef("dst := NewFrom(%v); dst.Merge(NewFrom(%v), field policy %d for %q)", dstIn, srcIn, pol, path)
	r.MustComplete("Merge", func() { err = dst.Merge(src, mopts...) })
	r.StateOps++
	r.Probe("merge: per-field policy on a path whose source value is a reference")
	if err != nil {
		r.FailD("op-result", "Merge", nil, "Merge of a source holding a reference to a list failed: %v", err)
		return
	}
	var got map[string]interface{}
	r.MustComplete("Unpack", func() { err = dst.Unpack(&got, opts...) })
	if err != nil {
		r.FailD("state", "Merge", nil, "Unpack after the merge failed: %v", err)
		return
	}
	var gp interface{} = got["p"]
	if nested {
		if s, ok := got["s"].(map[string]interface{}); ok {
			gp = s["p"]
		}
	}
	if g, w := model.CanonValue(gp), model.CanonValue(want); g != w {
		r.FailD("state", "Merge", map[string]string{"got": g, "want": w}, "after Merge with the policy named for %q the list there is %s; merging the referenced list as if that policy were the global one gives %s", path, g, w)
	}
	// outside the named subtree: the global (default) policy
	if g, w := model.CanonValue(got["keep"]), model.CanonValue([]interface{}{"x", "k1"}); g != w {
		r.FailD("state", "Merge", map[string]string{"got": g, "want": w}, "the per-field policy for %q reached the list \"keep\": %s, expected %s", path, g, w)
	}
}
