// Package workerlib is the worker protocol shared by the plain worker binary
// and the synctest test binary of engine E5: it executes simulated runs for
// one property against an instrumented scratch copy of the repository and is
// driven by /verif/bin/vsim.
package workerlib

import (
	"encoding/binary"
	"encoding/json"
	"flag"
	"fmt"
	"os"
	"runtime/debug"
	"sort"
	"strings"
	"time"

	"harness/sim"
)

type violationRec struct {
	Run       int            `json:"run"`
	Tape      []int          `json:"tape"`
	Violation *sim.Violation `json:"violation"`
}

type summary struct {
	Worker     int               `json:"worker"`
	Runs       int               `json:"runs"`
	FirstRun   int               `json:"first_run"`
	LastRun    int               `json:"last_run"`
	Nontrivial int               `json:"nontrivial"`
	Violations []violationRec    `json:"violations"`
	Faults     map[string]int    `json:"faults"`
	Probes     map[string]int    `json:"probes"`
	Foreign    map[string]int    `json:"foreign"`
	Logical    int64             `json:"logical_steps"`
	MaxOpSteps int64             `json:"max_op_steps"`
	StateOps   int64             `json:"state_ops"`
	Samples    []json.RawMessage `json:"samples"`
	WallS      float64           `json:"wall_s"`
}

type singleResult struct {
	Violation *sim.Violation    `json:"violation"`
	Tape      []int             `json:"tape"`
	Trace     []string          `json:"trace"`
	Choices   []sim.Choice      `json:"choices,omitempty"`
	Faults    map[string]int    `json:"faults"`
	Probes    map[string]int    `json:"probes"`
	Foreign   map[string]int    `json:"foreign"`
	Detail    map[string]string `json:"detail,omitempty"`
}

func writeSet(path string, set map[uint64]struct{}) {
	keys := make([]uint64, 0, len(set))
	for k := range set {
		keys = append(keys, k)
	}
	sort.Slice(keys, func(i, j int) bool { return keys[i] < keys[j] })
	buf := make([]byte, 8*len(keys))
	for i, k := range keys {
		binary.LittleEndian.PutUint64(buf[8*i:], k)
	}
	if err := os.WriteFile(path, buf, 0o644); err != nil {
		fmt.Fprintln(os.Stderr, "worker: cannot write", path, err)
		os.Exit(2)
	}
}

// Engine runs one simulated run.
type Engine func(r *sim.R)

// Main is the worker's command line. lookup maps a property id to its engine;
// probe runs a named known-finding scenario and returns a JSON-encodable result.
func Main(args []string, lookup func(prop string) Engine, probeFn func(id string) interface{}) {
	flag := flag.NewFlagSet("worker", flag.ExitOnError)
	prop := flag.String("prop", "", "property id")
	tier := flag.String("tier", "quick", "quick|thorough")
	seed := flag.Int64("seed", 1, "VERIF_SEED")
	worker := flag.Int("worker", 0, "worker index")
	nworkers := flag.Int("nworkers", 1, "number of workers")
	budget := flag.Duration("budget", 30*time.Second, "wall-clock budget")
	maxRuns := flag.Int("maxruns", 1<<30, "max runs for this worker")
	out := flag.String("out", "", "output directory")
	tapeFile := flag.String("tapefile", "", "single-run mode: JSON array of ints")
	trace := flag.Bool("trace", false, "single-run mode: keep the trace")
	avoid := flag.String("avoid", "", "comma separated known-finding ids whose inputs the generators avoid")
	probe := flag.String("probe", "", "run the named known-finding probe and report")
	sample := flag.Bool("sample", false, "search mode with one run: trace it and print the single-run result")
	tapeLog := flag.String("tapelog", "", "log every draw to this file as it happens (crash attribution)")
	runLog := flag.String("runlog", "", "write one line per run (tape hash, schedule hash, state hashes, verdict): determinism self-test")
	flag.Parse(args)
	debug.SetMaxStack(256 << 20)
	sim.TraceToStderr = *trace || *sample

	avoidSet := map[string]bool{}
	for _, a := range strings.Split(*avoid, ",") {
		if a != "" && a != "-" {
			avoidSet[a] = true
		}
	}

	if *probe != "" {
		json.NewEncoder(os.Stdout).Encode(probeFn(*probe))
		return
	}

	eng := lookup(*prop)
	if eng == nil {
		fmt.Fprintln(os.Stderr, "worker: unknown property", *prop)
		os.Exit(2)
	}

	if *tapeFile != "" {
		b, err := os.ReadFile(*tapeFile)
		if err != nil {
			fmt.Fprintln(os.Stderr, err)
			os.Exit(2)
		}
		var pre []int
		if err := json.Unmarshal(b, &pre); err != nil {
			fmt.Fprintln(os.Stderr, err)
			os.Exit(2)
		}
		t := sim.NewReplayTape(pre, *trace)
		r := sim.NewR(*prop, *tier, t, *trace)
		r.Avoid = avoidSet
		r.Execute(func() { eng(r) })
		res := singleResult{Violation: r.V, Tape: t.Used, Trace: r.Steps, Faults: r.Faults, Probes: r.Probes, Foreign: r.Foreign}
		if *trace {
			res.Choices = t.Log
		}
		json.NewEncoder(os.Stdout).Encode(res)
		return
	}

	start := time.Now()
	sum := summary{Worker: *worker, Faults: map[string]int{}, Probes: map[string]int{}, Foreign: map[string]int{}, FirstRun: -1}
	traces := map[uint64]struct{}{}
	states := map[uint64]struct{}{}
	scheds := map[uint64]struct{}{}
	cur, err := os.Create(fmt.Sprintf("%s/cur-%d", *out, *worker))
	if err != nil {
		fmt.Fprintln(os.Stderr, err)
		os.Exit(2)
	}
	var curBuf [8]byte
	var rl *os.File
	if *runLog != "" {
		rl, err = os.Create(*runLog)
		if err != nil {
			fmt.Fprintln(os.Stderr, err)
			os.Exit(2)
		}
		defer rl.Close()
	}
	const setCap = 1 << 21
	for i := 0; i < *maxRuns; i++ {
		if i%16 == 0 && time.Since(start) > *budget {
			break
		}
		run := *worker + i**nworkers
		binary.LittleEndian.PutUint64(curBuf[:], uint64(run))
		cur.WriteAt(curBuf[:], 0)
		t := sim.NewSearchTape(sim.RunSeed(*seed, *prop, run))
		if *tapeLog != "" {
			lf, err := os.Create(*tapeLog)
			if err != nil {
				fmt.Fprintln(os.Stderr, err)
				os.Exit(2)
			}
			t.Sink = lf
		}
		r := sim.NewR(*prop, *tier, t, *sample)
		r.Avoid = avoidSet
		r.Execute(func() { eng(r) })
		if *sample {
			res := singleResult{Violation: r.V, Tape: t.Used, Trace: r.Steps, Faults: r.Faults, Probes: r.Probes, Foreign: r.Foreign}
			json.NewEncoder(os.Stdout).Encode(res)
			return
		}
		if rl != nil {
			verdict := "ok"
			if r.V != nil {
				verdict = r.V.Class() + "@" + fmt.Sprint(r.V.Step)
			}
			fmt.Fprintf(rl, "%d %x %x %x %d %s\n", run, t.Hash(), r.SchedHash, r.StateHashes, r.Logical, verdict)
		}
		sum.Runs++
		if sum.FirstRun < 0 {
			sum.FirstRun = run
		}
		sum.LastRun = run
		sum.Logical += r.Logical
		sum.StateOps += int64(r.StateOps)
		if r.MaxOpSteps > sum.MaxOpSteps {
			sum.MaxOpSteps = r.MaxOpSteps
		}
		for k, v := range r.Faults {
			sum.Faults[k] += v
		}
		for k, v := range r.Probes {
			sum.Probes[k] += v
		}
		for k, v := range r.Foreign {
			sum.Foreign[k] += v
		}
		nfaults := 0
		for _, v := range r.Faults {
			nfaults += v
		}
		if r.StateOps >= 2 || nfaults >= 1 {
			sum.Nontrivial++
			if len(traces) < setCap {
				traces[t.Hash()] = struct{}{}
			}
		}
		if len(states) < setCap {
			for _, h := range r.StateHashes {
				states[h] = struct{}{}
			}
		}
		if len(scheds) < setCap {
			scheds[r.SchedHash] = struct{}{}
		}
		if r.V != nil {
			sum.Violations = append(sum.Violations, violationRec{Run: run, Tape: append([]int{}, t.Used...), Violation: r.V})
			if len(sum.Violations) >= 8 {
				break
			}
		}
	}
	sum.WallS = time.Since(start).Seconds()
	writeSet(fmt.Sprintf("%s/traces-%d.bin", *out, *worker), traces)
	writeSet(fmt.Sprintf("%s/states-%d.bin", *out, *worker), states)
	writeSet(fmt.Sprintf("%s/scheds-%d.bin", *out, *worker), scheds)
	f, err := os.Create(fmt.Sprintf("%s/summary-%d.json", *out, *worker))
	if err != nil {
		fmt.Fprintln(os.Stderr, err)
		os.Exit(2)
	}
	json.NewEncoder(f).Encode(sum)
	f.Close()
}
