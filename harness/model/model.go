// Package model is the reference tree the world, order, unpack and flag
// engines compare go-ucfg with. It is written from the property statements
// (C01, C10, C12, C15, C16) and the package documentation, not from the
// implementation: a plain tree of dictionaries and lists with parent links.
package model

import (
	"fmt"
	"math"
	"sort"
	"strconv"
	"strings"
)

// Kind of a node.
type Kind int

// Node kinds.
const (
	KNil Kind = iota
	KBool
	KInt // any integer, held in I (negative or zero) or U (positive)
	KFloat
	KStr
	KSub
)

func (k Kind) String() string {
	return [...]string{"nil", "bool", "int", "float", "string", "sub"}[k]
}

// Node is a setting: a primitive, nil, or a container with a dictionary
// part and a list part (a "plain" container has only one of them).
type Node struct {
	K   Kind
	B   bool
	I   int64
	U   uint64 // used when Neg is false
	Neg bool   // integer is <= 0 and held in I
	F   float64
	S   string
	D   map[string]*Node
	A   []*Node
	Src string // provenance: source name of the metadata the value was created with

	Parent *Node
	Field  string

	// Detached is set when the node was replaced or removed: handles to it
	// (or to anything below it) are no longer views of a live tree.
	Detached bool
	// Sticky records which parts the container ever had (1 dictionary, 2 list):
	// the modelled domain (C12: "a plain tree of dictionaries and lists") never
	// uses a name on a node that has been a list or an index on one that has
	// been a dictionary.
	Sticky int
}

func (n *Node) detach() {
	n.Detached = true
	n.Parent = nil
}

// Constructors.
func Nil() *Node            { return &Node{K: KNil} }
func Bool(b bool) *Node     { return &Node{K: KBool, B: b} }
func Str(s string) *Node    { return &Node{K: KStr, S: s} }
func Float(f float64) *Node { return &Node{K: KFloat, F: f} }
func Int(i int64) *Node {
	if i > 0 {
		return &Node{K: KInt, U: uint64(i)}
	}
	return &Node{K: KInt, I: i, Neg: true}
}
func Uint(u uint64) *Node { return &Node{K: KInt, U: u} }
func Dict() *Node         { return &Node{K: KSub, D: map[string]*Node{}, Sticky: 1} }
func List() *Node         { return &Node{K: KSub, Sticky: 2} }

// IsPrim reports whether n is a primitive or nil.
func (n *Node) IsPrim() bool { return n.K != KSub }

// Empty reports whether a container has no entries at all.
func (n *Node) Empty() bool { return n.K == KSub && len(n.D) == 0 && len(n.A) == 0 }

// PureDict / PureList: containers with exactly one non-empty part.
func (n *Node) PureDict() bool { return n.K == KSub && len(n.D) > 0 && len(n.A) == 0 }
func (n *Node) PureList() bool { return n.K == KSub && len(n.D) == 0 && len(n.A) > 0 }
func (n *Node) Mixed() bool    { return n.K == KSub && len(n.D) > 0 && len(n.A) > 0 }

// Keys returns the dictionary keys in sorted order.
func (n *Node) Keys() []string {
	ks := make([]string, 0, len(n.D))
	for k := range n.D {
		ks = append(ks, k)
	}
	sort.Strings(ks)
	return ks
}

// SetD stores child under name and links it.
func (n *Node) SetD(name string, c *Node) {
	if n.D == nil {
		n.D = map[string]*Node{}
	}
	if old, ok := n.D[name]; ok && old != c {
		old.detach()
	}
	n.D[name] = c
	n.Sticky |= 1
	c.Parent, c.Field = n, name
}

// SetA stores child at index i, padding with nils.
func (n *Node) SetA(i int, c *Node) {
	for len(n.A) <= i {
		p := Nil()
		p.Parent, p.Field = n, strconv.Itoa(len(n.A))
		n.A = append(n.A, p)
	}
	if old := n.A[i]; old != nil && old != c {
		old.detach()
	}
	n.A[i] = c
	n.Sticky |= 2
	c.Parent, c.Field = n, strconv.Itoa(i)
}

// DropD removes all dictionary entries; DropA all list entries.
func (n *Node) DropD() {
	for _, c := range n.D {
		c.detach()
	}
	n.D = map[string]*Node{}
}

// DropA removes all list entries.
func (n *Node) DropA() {
	for _, c := range n.A {
		c.detach()
	}
	n.A = nil
}

// Push appends a child to the list part.
func (n *Node) Push(c *Node) { n.SetA(len(n.A), c) }

// Renumber re-links all children (after elements moved).
func (n *Node) Renumber() {
	for i, c := range n.A {
		c.Parent, c.Field = n, strconv.Itoa(i)
	}
	for k, c := range n.D {
		c.Parent, c.Field = n, k
	}
}

// Copy returns a deep copy, detached from any parent.
func (n *Node) Copy() *Node {
	c := *n
	c.Detached = false
	c.Parent, c.Field = nil, ""
	c.D, c.A = nil, nil
	if n.K == KSub {
		if n.D != nil {
			c.D = map[string]*Node{}
			for k, v := range n.D {
				cc := v.Copy()
				cc.Parent, cc.Field = &c, k
				c.D[k] = cc
			}
		}
		for i, v := range n.A {
			cc := v.Copy()
			cc.Parent, cc.Field = &c, strconv.Itoa(i)
			c.A = append(c.A, cc)
		}
	}
	return &c
}

// Path is the expected dotted path of n from its root.
func (n *Node) Path(sep string) string {
	if n.Parent == nil {
		return ""
	}
	p := n.Parent.Path(sep)
	if p == "" {
		return n.Field
	}
	return p + sep + n.Field
}

// Root returns the root of the tree n lives in.
func (n *Node) Root() *Node {
	for n.Parent != nil {
		n = n.Parent
	}
	return n
}

// Below reports whether n is a (non-strict) descendant of a.
func (n *Node) Below(a *Node) bool {
	for x := n; x != nil; x = x.Parent {
		if x == a {
			return true
		}
	}
	return false
}

// ---------------------------------------------------------------------------------------------
// Canonical generic form. Numbers compare by value across int64/uint64/float64;
// nil, the empty dictionary and the empty list are equal; dictionary entries
// whose value is nil/empty are dropped; list positions are kept.

// Canon renders the model node.
func (n *Node) Canon() string {
	var b strings.Builder
	n.canon(&b)
	return b.String()
}

func (n *Node) canon(b *strings.Builder) {
	switch n.K {
	case KNil:
		b.WriteString("null")
	case KBool:
		b.WriteString(strconv.FormatBool(n.B))
	case KInt:
		if n.Neg {
			b.WriteString(strconv.FormatInt(n.I, 10))
		} else {
			b.WriteString(strconv.FormatUint(n.U, 10))
		}
	case KFloat:
		b.WriteString(canonFloat(n.F))
	case KStr:
		b.WriteString(strconv.Quote(n.S))
	case KSub:
		switch {
		case len(n.D) == 0 && len(n.A) == 0:
			b.WriteString("null")
		case len(n.D) == 0:
			b.WriteString("[")
			for i, c := range n.A {
				if i > 0 {
					b.WriteString(",")
				}
				c.canon(b)
			}
			b.WriteString("]")
		default:
			// dictionary, possibly with list entries under their index as key
			ents := map[string]string{}
			for k, c := range n.D {
				ents[k] = c.Canon()
			}
			for i, c := range n.A {
				ents[strconv.Itoa(i)] = c.Canon()
			}
			writeMap(b, ents)
		}
	}
}

func writeMap(b *strings.Builder, ents map[string]string) {
	ks := make([]string, 0, len(ents))
	for k, v := range ents {
		if v != "null" {
			ks = append(ks, k)
		}
	}
	if len(ks) == 0 {
		b.WriteString("null")
		return
	}
	sort.Strings(ks)
	b.WriteString("{")
	for i, k := range ks {
		if i > 0 {
			b.WriteString(",")
		}
		b.WriteString(strconv.Quote(k))
		b.WriteString(":")
		b.WriteString(ents[k])
	}
	b.WriteString("}")
}

func canonFloat(f float64) string {
	if f == math.Trunc(f) && math.Abs(f) < 1e18 {
		return strconv.FormatInt(int64(f), 10)
	}
	return strconv.FormatFloat(f, 'g', -1, 64)
}

// CanonStrict renders the tree like Canon, but tells an empty list ("[]") from an absent or null
// setting (an empty dictionary is omitted by the generic Unpack like a null). ok is false when the tree holds a container whose
// kind the model does not know (emptied after having been both, or mixed).
func (n *Node) CanonStrict() (string, bool) {
	var b strings.Builder
	ok := true
	n.canonStrict(&b, &ok)
	return b.String(), ok
}

func (n *Node) canonStrict(b *strings.Builder, ok *bool) {
	if n.K != KSub {
		n.canon(b)
		return
	}
	switch {
	case len(n.D) > 0 && len(n.A) > 0:
		*ok = false
	case len(n.A) > 0:
		b.WriteString("[")
		for i, c := range n.A {
			if i > 0 {
				b.WriteString(",")
			}
			c.canonStrict(b, ok)
		}
		b.WriteString("]")
	case len(n.D) > 0:
		ents := map[string]string{}
		for k, c := range n.D {
			var sb strings.Builder
			c.canonStrict(&sb, ok)
			ents[k] = sb.String()
		}
		writeMap(b, ents) // (null settings and empty dictionaries do not show in a map)
	case n.Sticky == 2:
		b.WriteString("[]")
	case n.Sticky == 3:
		*ok = false
	default:
		b.WriteString("null")
	}
}

// CanonValueStrict is the counterpart of CanonStrict for a generic Go value.
func CanonValueStrict(v interface{}) string {
	var b strings.Builder
	canonValueStrict(&b, v)
	return b.String()
}

func canonValueStrict(b *strings.Builder, v interface{}) {
	switch x := v.(type) {
	case []interface{}:
		b.WriteString("[")
		for i, e := range x {
			if i > 0 {
				b.WriteString(",")
			}
			canonValueStrict(b, e)
		}
		b.WriteString("]")
	case map[string]interface{}:
		ents := map[string]string{}
		for k, e := range x {
			ents[k] = CanonValueStrict(e)
		}
		writeMap(b, ents)
	default:
		canonValue(b, v)
	}
}

// CanonValue renders a generic Go value as produced by Unpack into interface{}.
func CanonValue(v interface{}) string {
	var b strings.Builder
	canonValue(&b, v)
	return b.String()
}

func canonValue(b *strings.Builder, v interface{}) {
	switch x := v.(type) {
	case nil:
		b.WriteString("null")
	case bool:
		b.WriteString(strconv.FormatBool(x))
	case int:
		b.WriteString(strconv.FormatInt(int64(x), 10))
	case int64:
		b.WriteString(strconv.FormatInt(x, 10))
	case uint64:
		b.WriteString(strconv.FormatUint(x, 10))
	case uint:
		b.WriteString(strconv.FormatUint(uint64(x), 10))
	case float64:
		b.WriteString(canonFloat(x))
	case string:
		b.WriteString(strconv.Quote(x))
	case []interface{}:
		if len(x) == 0 {
			b.WriteString("null")
			return
		}
		b.WriteString("[")
		for i, e := range x {
			if i > 0 {
				b.WriteString(",")
			}
			canonValue(b, e)
		}
		b.WriteString("]")
	case map[string]interface{}:
		ents := map[string]string{}
		for k, e := range x {
			ents[k] = CanonValue(e)
		}
		writeMap(b, ents)
	default:
		fmt.Fprintf(b, "<%T:%v>", v, v)
	}
}

// ---------------------------------------------------------------------------------------------
// Addresses.

// Seg is one step of an address: a name in a dictionary or an index in a list.
type Seg struct {
	Name  string
	Idx   int
	IsIdx bool
}

func (s Seg) String() string {
	if s.IsIdx {
		return strconv.Itoa(s.Idx)
	}
	return s.Name
}

// N and I build segments.
func N(name string) Seg { return Seg{Name: name} }
func I(i int) Seg       { return Seg{Idx: i, IsIdx: true} }

// PathString joins segments.
func PathString(segs []Seg, sep string) string {
	s := make([]string, len(segs))
	for i, x := range segs {
		s[i] = x.String()
	}
	return strings.Join(s, sep)
}

// Status of an address with respect to a tree.
type Status int

const (
	Found       Status = iota
	Absent             // legal address, nothing stored there (missing key, index past the end, or nil on the way)
	ThroughPrim        // the address steps through (or into) a primitive: illegal
	KindClash          // a name is used on a list or an index on a dictionary: outside the modelled domain
)

func (s Status) String() string {
	return [...]string{"found", "absent", "through-primitive", "kind-clash"}[s]
}

// child resolves one step. ok=false with st telling why.
func (n *Node) child(s Seg) (*Node, Status) {
	switch {
	case n.K == KNil:
		return nil, Absent
	case n.K != KSub:
		return nil, ThroughPrim
	case s.IsIdx:
		if len(n.D) > 0 || n.Sticky&1 != 0 {
			return nil, KindClash
		}
		if s.Idx < 0 {
			return nil, KindClash
		}
		if s.Idx >= len(n.A) {
			return nil, Absent
		}
		return n.A[s.Idx], Found
	default:
		if len(n.A) > 0 || n.Sticky&2 != 0 {
			return nil, KindClash
		}
		c, ok := n.D[s.Name]
		if !ok {
			return nil, Absent
		}
		return c, Found
	}
}

// Lookup resolves an address. A nil-valued setting on the way counts as Absent
// for the rest of the address; the setting itself, when it is the last step, is Found.
func (n *Node) Lookup(segs []Seg) (*Node, Status) {
	return n.lookup(segs, false)
}

// LookupRead is Lookup with the read rule of the getters: a primitive can be
// handled like a list with one entry, so index 0 of a primitive is itself.
func (n *Node) LookupRead(segs []Seg) (*Node, Status) {
	return n.lookup(segs, true)
}

func (n *Node) lookup(segs []Seg, read bool) (*Node, Status) {
	cur := n
	for _, s := range segs {
		if read && s.IsIdx && s.Idx == 0 && cur.K != KSub && cur.K != KNil {
			continue
		}
		c, st := cur.child(s)
		if st != Found {
			return nil, st
		}
		cur = c
	}
	return cur, Found
}

// SetStatus classifies a write address: Found/Absent mean the write is legal.
func (n *Node) SetStatus(segs []Seg) Status {
	cur := n
	for i, s := range segs {
		last := i == len(segs)-1
		if cur.K == KNil && i > 0 {
			// a nil on the way is replaced by fresh containers
			return Absent
		}
		if cur.K != KSub {
			return ThroughPrim
		}
		if s.IsIdx && (len(cur.D) > 0 || s.Idx < 0 || cur.Sticky&1 != 0) {
			return KindClash
		}
		if !s.IsIdx && (len(cur.A) > 0 || cur.Sticky&2 != 0) {
			return KindClash
		}
		if last {
			return Found
		}
		c, st := cur.child(s)
		if st == Absent {
			return Absent
		}
		if st != Found {
			return st
		}
		cur = c
	}
	return Found
}

// Set writes v at the address, creating intermediate containers and padding
// lists with nils. The caller has checked SetStatus.
func (n *Node) Set(segs []Seg, v *Node) {
	cur := n
	for i, s := range segs {
		if i == len(segs)-1 {
			cur.put(s, v)
			return
		}
		c, st := cur.child(s)
		if st != Found || c.K == KNil {
			// build the rest of the chain
			rest := segs[i+1:]
			val := v
			for j := len(rest) - 1; j >= 0; j-- {
				box := &Node{K: KSub, Src: v.Src}
				box.put(rest[j], val)
				val = box
			}
			cur.put(s, val)
			return
		}
		cur = c
	}
}

func (n *Node) put(s Seg, v *Node) {
	if s.IsIdx {
		n.SetA(s.Idx, v)
	} else {
		n.SetD(s.Name, v)
	}
}

// Remove deletes the setting at the address; list removal shifts later
// elements down. It returns whether something was removed.
func (n *Node) Remove(segs []Seg) bool {
	parent, st := n.Lookup(segs[:len(segs)-1])
	if st != Found || parent.K != KSub {
		return false
	}
	s := segs[len(segs)-1]
	if s.IsIdx {
		if s.Idx < 0 || s.Idx >= len(parent.A) {
			return false
		}
		parent.A[s.Idx].detach()
		parent.A = append(parent.A[:s.Idx:s.Idx], parent.A[s.Idx+1:]...)
		parent.Renumber()
		return true
	}
	old, ok := parent.D[s.Name]
	if !ok {
		return false
	}
	old.detach()
	delete(parent.D, s.Name)
	return true
}

// Leaves returns the root-relative paths of all non-nil primitive settings.
func (n *Node) Leaves(sep string) []string {
	var out []string
	var rec func(x *Node, p string)
	rec = func(x *Node, p string) {
		join := func(f string) string {
			if p == "" {
				return f
			}
			return p + sep + f
		}
		switch x.K {
		case KNil:
		case KSub:
			for _, k := range x.Keys() {
				rec(x.D[k], join(k))
			}
			for i, c := range x.A {
				rec(c, join(strconv.Itoa(i)))
			}
		default:
			out = append(out, p)
		}
	}
	rec(n, "")
	sort.Strings(out)
	return out
}

// Walk visits every node with its address.
func (n *Node) Walk(fn func(x *Node, segs []Seg)) {
	var rec func(x *Node, segs []Seg)
	rec = func(x *Node, segs []Seg) {
		fn(x, segs)
		if x.K != KSub {
			return
		}
		for _, k := range x.Keys() {
			rec(x.D[k], append(append([]Seg{}, segs...), N(k)))
		}
		for i, c := range x.A {
			rec(c, append(append([]Seg{}, segs...), I(i)))
		}
	}
	rec(n, nil)
}

// CheckLinks verifies the model's own parent links (harness self-check).
func (n *Node) CheckLinks() error {
	var err error
	n.Walk(func(x *Node, segs []Seg) {
		if x.K != KSub {
			return
		}
		for k, c := range x.D {
			if c.Parent != x || c.Field != k {
				err = fmt.Errorf("model link broken at %s.%s", PathString(segs, "."), k)
			}
		}
		for i, c := range x.A {
			if c.Parent != x || c.Field != strconv.Itoa(i) {
				err = fmt.Errorf("model link broken at %s.%d", PathString(segs, "."), i)
			}
		}
	})
	return err
}
