package model

// Handling is a merge policy.
type Handling int

// Policies (C01): default = index-wise merge of lists.
const (
	HDefault Handling = iota
	HMerge
	HReplace    // ReplaceValues: B's non-empty dictionary / list replaces A's
	HAppend     // AppendValues: A then B
	HPrepend    // PrependValues: B then A
	HReplaceArr // ReplaceArrValues: B's non-empty list replaces A's; dictionaries are united
)

func (h Handling) String() string {
	return [...]string{"default", "merge", "replace", "append", "prepend", "replace-arrays"}[h]
}

// FieldOpt is a per-field policy (C16): Path is relative to the merge root;
// Wild means the option was written "**.<name>" and matches that name at any depth.
type FieldOpt struct {
	Path []string
	Wild bool
	H    Handling
}

// MergeOpts is the policy as a function of the path.
type MergeOpts struct {
	Global Handling
	Fields []FieldOpt
}

func (o *MergeOpts) override(path []string) (Handling, bool) {
	var h Handling
	found := false
	for _, f := range o.Fields {
		if f.Wild {
			if len(path) > 0 && len(f.Path) == 1 && path[len(path)-1] == f.Path[0] {
				h, found = f.H, true
			}
			continue
		}
		if len(f.Path) != len(path) {
			continue
		}
		eq := true
		for i := range path {
			// "*" in an option's path stands for every index of a list
			if path[i] != f.Path[i] && !(f.Path[i] == "*" && isIndex(path[i])) {
				eq = false
				break
			}
		}
		if eq {
			h, found = f.H, true
		}
	}
	return h, found
}

// Merge merges src into dst (dst is changed, src is only read). Stats counts
// what happened, for the reach probes.
type MergeStats struct {
	BothContainers, PrimOverSub, SubOverPrim, NilKeepsSub, ListMoved, Overrides int
}

// Merge implements the statement of C01/C16.
func Merge(dst, src *Node, o MergeOpts, st *MergeStats) {
	if st == nil {
		st = &MergeStats{}
	}
	mergeSub(dst, src, o.Global, nil, &o, st)
}

func mergeSub(dst, src *Node, h Handling, path []string, o *MergeOpts, st *MergeStats) {
	// dictionary part: union; under replace a non-empty dictionary of B replaces A's
	if len(src.D) > 0 {
		if h == HReplace {
			dst.DropD()
		}
		for _, k := range src.Keys() {
			p := append(append([]string{}, path...), k)
			h2 := h
			if oh, ok := o.override(p); ok {
				h2 = oh
				st.Overrides++
			}
			var old *Node
			if dst.D != nil {
				old = dst.D[k]
			}
			dst.SetD(k, mergeVal(old, src.D[k], h2, p, o, st))
		}
	}
	// list part
	if len(src.A) == 0 {
		return
	}
	switch h {
	case HReplace, HReplaceArr:
		dst.DropA()
		for _, e := range src.A {
			dst.Push(e.Copy())
		}
	case HAppend:
		for _, e := range src.A {
			dst.Push(e.Copy())
		}
	case HPrepend:
		old := dst.A
		dst.A = nil
		for _, e := range src.A {
			dst.Push(e.Copy())
		}
		for _, e := range old {
			dst.Push(e)
		}
		if len(old) > 0 {
			st.ListMoved++
		}
	default:
		for i, e := range src.A {
			if i < len(dst.A) {
				p := append(append([]string{}, path...), itoa(i))
				h2 := h
				if oh, ok := o.override(p); ok {
					h2 = oh
					st.Overrides++
				}
				dst.SetA(i, mergeVal(dst.A[i], e, h2, p, o, st))
			} else {
				dst.Push(e.Copy())
			}
		}
	}
}

func mergeVal(old, v *Node, h Handling, path []string, o *MergeOpts, st *MergeStats) *Node {
	if old == nil {
		return v.Copy()
	}
	if old.K != KSub {
		// A is not a container: B's value (also when B is nil)
		if v.K == KSub {
			st.SubOverPrim++
		}
		return v.Copy()
	}
	if v.K != KSub {
		if v.K == KNil {
			st.NilKeepsSub++
			return old // a nil in B leaves a container of A in place
		}
		st.PrimOverSub++
		return v.Copy()
	}
	st.BothContainers++
	mergeSub(old, v, h, path, o, st)
	return old
}

func isIndex(s string) bool {
	if s == "" {
		return false
	}
	for _, c := range s {
		if c < '0' || c > '9' {
			return false
		}
	}
	return true
}

func itoa(i int) string {
	if i < 10 {
		return string(rune('0' + i))
	}
	return itoaSlow(i)
}

func itoaSlow(i int) string {
	var b []byte
	for i > 0 {
		b = append([]byte{byte('0' + i%10)}, b...)
		i /= 10
	}
	return string(b)
}
