// Package unpack is engine E3: typed Unpack targets built per run with
// reflect.StructOf from a library of leaf and container types whose callbacks
// (Validate, Unpack, InitDefaults, the registered "simcheck" tag validator)
// call back into the simulator, which can fail any one invocation. For every
// case all fault points are enumerated exhaustively (C13, C14, C04).
package unpack

import (
	"errors"
	"fmt"
	"reflect"
	"regexp"
	"strconv"
	"strings"
	"sync"
	"time"

	ucfg "github.com/elastic/go-ucfg"
)

// Hit is one recorded callback invocation.
type Hit struct {
	Kind  string      // "simcheck", "Validate", "Unpack", "InitDefaults"
	ID    string      // simcheck parameter / type name
	Value interface{} // the value the callback saw
}

// Callbacks is the seam through which the environment (user code attached to
// the target type) reaches the library; the simulator owns it.
type Callbacks struct {
	Log     []Hit
	FailAt  int // index of the invocation that returns an error; -1 = none
	Fired   bool
	FiredAt Hit
}

var cb = &Callbacks{FailAt: -1}

// ErrInjected is the error a failing callback returns.
var ErrInjected = errors.New("simulated callback failure")

func (c *Callbacks) hit(kind, id string, v interface{}, canFail bool) error {
	idx := len(c.Log)
	c.Log = append(c.Log, Hit{kind, id, v})
	if canFail && idx == c.FailAt {
		c.Fired = true
		c.FiredAt = c.Log[idx]
		return ErrInjected
	}
	return nil
}

var registerOnce sync.Once

func register() {
	registerOnce.Do(func() {
		err := ucfg.RegisterValidator("simcheck", func(v interface{}, param string) error {
			return cb.hit("simcheck", param, v, true)
		})
		if err != nil {
			panic("harness: cannot register simcheck: " + err.Error())
		}
	})
}

// ---------------------------------------------------------------------------------------------
// Leaf types with callbacks.

// VInt is an int with a Validate method.
type VInt int

// Validate reports to the simulator.
func (v VInt) Validate() error { return cb.hit("Validate", "VInt", int(v), true) }

// VStr is a string with a Validate method (pointer receiver).
type VStr string

// Validate reports to the simulator.
func (v *VStr) Validate() error { return cb.hit("Validate", "VStr", string(*v), true) }

// UStr implements StringUnpacker.
type UStr struct{ S string }

// Unpack records the value.
func (u *UStr) Unpack(s string) error {
	if err := cb.hit("Unpack", "UStr", s, true); err != nil {
		return err
	}
	u.S = "<" + s + ">"
	return nil
}

// UInt implements IntUnpacker.
type UInt struct{ I int64 }

// Unpack records the value.
func (u *UInt) Unpack(i int64) error {
	if err := cb.hit("Unpack", "UInt", i, true); err != nil {
		return err
	}
	u.I = i * 2
	return nil
}

// UPrim is an Unpacker of a primitive kind: the validators of the field's tag apply to the
// number its Unpack method stores, as they apply to a plain number.
type UPrim int64

// Unpack records the value.
func (u *UPrim) Unpack(i int64) error {
	if err := cb.hit("Unpack", "UPrim", i, true); err != nil {
		return err
	}
	*u = UPrim(i)
	return nil
}

// UBool implements BoolUnpacker.
type UBool struct {
	B, Set bool
}

// Unpack records the value.
func (u *UBool) Unpack(b bool) error {
	if err := cb.hit("Unpack", "UBool", b, true); err != nil {
		return err
	}
	u.B, u.Set = b, true
	return nil
}

// UFloat implements FloatUnpacker.
type UFloat struct{ F float64 }

// Unpack records the value.
func (u *UFloat) Unpack(f float64) error {
	if err := cb.hit("Unpack", "UFloat", f, true); err != nil {
		return err
	}
	u.F = f + 1
	return nil
}

// UUint implements UintUnpacker.
type UUint struct{ U uint64 }

// Unpack records the value.
func (u *UUint) Unpack(n uint64) error {
	if err := cb.hit("Unpack", "UUint", n, true); err != nil {
		return err
	}
	u.U = n + 3
	return nil
}

// reflCfg is a type defined from Config: an Unpack method taking it is found by reflection.
type reflCfg ucfg.Config

// URefl has an Unpack method that matches none of the Unpacker interfaces by name of its
// parameter type, only by convertibility from Config.
type URefl struct{ N int }

// Unpack records the value.
func (u *URefl) Unpack(c *reflCfg) error {
	if err := cb.hit("Unpack", "URefl", nil, true); err != nil {
		return err
	}
	n, _ := (*ucfg.Config)(c).CountField("")
	u.N = 200 + n
	return nil
}

// UVal implements IntUnpacker and Validator: the unpacked value has to be validated.
type UVal struct{ V int64 }

// Unpack records the value.
func (u *UVal) Unpack(i int64) error {
	if err := cb.hit("Unpack", "UVal", i, true); err != nil {
		return err
	}
	u.V = i + 1000
	return nil
}

// Validate reports to the simulator.
func (u UVal) Validate() error { return cb.hit("Validate", "UVal", u.V, true) }

// URe implements ConfigUnpacker the usual way: defaults, merge the settings over them, unpack the
// result into a typed struct. A fault below it surfaces as a ucfg.Error about the re-rooted copy.
type URe struct {
	P int    `config:"p"`
	Q string `config:"q"`
}

// Unpack re-roots the settings.
func (u *URe) Unpack(c *ucfg.Config) error {
	if err := cb.hit("Unpack", "URe", nil, true); err != nil {
		return err
	}
	defaults, err := ucfg.NewFrom(map[string]interface{}{"p": uint64(1), "q": "dflt"})
	if err != nil {
		return err
	}
	if err := defaults.Merge(c); err != nil {
		return err
	}
	type plain URe
	var tmp plain
	if err := defaults.Unpack(&tmp); err != nil {
		return err
	}
	*u = URe(tmp)
	return nil
}

// UAny implements Unpacker.
type UAny struct{ V string }

// Unpack records the value.
func (u *UAny) Unpack(v interface{}) error {
	if err := cb.hit("Unpack", "UAny", v, true); err != nil {
		return err
	}
	u.V = fmt.Sprint(v)
	return nil
}

// UCfg implements ConfigUnpacker.
type UCfg struct{ N int }

// Unpack records the value.
func (u *UCfg) Unpack(c *ucfg.Config) error {
	if err := cb.hit("Unpack", "UCfg", nil, true); err != nil {
		return err
	}
	n, _ := c.CountField("")
	u.N = 100 + n
	return nil
}

// DInt has defaults.
type DInt struct {
	A int    `config:"a" validate:"simcheck=DInt.a"`
	B string `config:"b" validate:"simcheck=DInt.b"`
	C int    `config:"c" validate:"simcheck=DInt.c"` // not assigned by InitDefaults
}

// InitDefaults sets the defaults.
func (d *DInt) InitDefaults() {
	cb.hit("InitDefaults", "DInt", nil, false)
	d.A = 7
	d.B = "dflt"
}

// IA2 is a fixed-size array type with defaults of its own.
type IA2 [2]int

// InitDefaults sets the defaults.
func (a *IA2) InitDefaults() {
	cb.hit("InitDefaults", "IA2", nil, false)
	a[0], a[1] = 71, 72
}

// PI is a primitive type with a default of its own and a Validate method.
type PI int

// InitDefaults sets the default.
func (p *PI) InitDefaults() {
	cb.hit("InitDefaults", "PI", nil, false)
	*p = 133
}

// Validate reports to the simulator.
func (p PI) Validate() error { return cb.hit("Validate", "PI", int(p), true) }

// Inner is a hand-written struct type with an unexported and an ignored field.
type Inner struct {
	X      VInt   `config:"x" validate:"simcheck=Inner.x"`
	Y      string `config:"y" validate:"simcheck=Inner.y"`
	hidden int
	Ign    string `config:",ignore"`
}

// Validate reports to the simulator.
func (i Inner) Validate() error { return cb.hit("Validate", "Inner", i.Y, true) }

// TopV is a hand-written top-level target with a Validate method of its own.
type TopV struct {
	A int    `config:"a" validate:"simcheck=TopV.a"`
	B string `config:"b" validate:"simcheck=TopV.b"`
	S []int  `config:"s" validate:"simcheck=TopV.s"`
	I Inner  `config:"i"`
}

// Validate reports to the simulator.
func (t *TopV) Validate() error { return cb.hit("Validate", "TopV", t.A, true) }

// topVStruct describes TopV in the terms of the generator.
func topVStruct() *Struct {
	return &Struct{Type: reflect.TypeOf(TopV{}), Fields: []*Field{
		{Kind: KInt, GoName: "A", Name: "a", ID: "TopV.a"},
		{Kind: KStr, GoName: "B", Name: "b", ID: "TopV.b"},
		{Kind: KSInt, GoName: "S", Name: "s", ID: "TopV.s"},
		{Kind: KInner, GoName: "I", Name: "i", ID: "TopV.i"},
	}}
}

// ---------------------------------------------------------------------------------------------
// Field kinds of generated struct types.

// Kind of a generated field.
type Kind int

// Field kinds.
const (
	KInt Kind = iota
	KInt8
	KUint16
	KF64
	KStr
	KBool
	KDur
	KPInt
	KPStr
	KVInt
	KVStr
	KUStr
	KUInt
	KUBool
	KUFloat
	KUAny
	KUCfg
	KSInt
	KSStr
	KSVInt
	KA2
	KMInt
	KMIface
	KIface
	KCfg
	KDInt
	KInner
	KPInner
	KStruct
	KPStruct
	KSStruct
	KMStruct
	KInline
	KF32
	KMSlice
	KMVInt
	KPI
	KPSInt
	KPDur
	KUUint
	KSUStr
	KSUCfg
	KSMap
	KRegex
	KAStruct
	KSSVInt
	KMSVInt
	KU64
	KPUStr
	KMUCfg
	KURefl
	KUVal
	KURe
	KIfPInner
	KPA2
	KMA2
	KUPrim
	KIA2
	KPMInt
	kindCount
)

var kindNames = [...]string{"int", "int8", "uint16", "float64", "string", "bool", "duration", "*int", "*string", "VInt", "VStr",
	"UStr", "UInt", "UBool", "UFloat", "UAny", "UCfg", "[]int", "[]string", "[]VInt", "[2]int", "map[string]int", "map[string]interface{}",
	"interface{}", "*Config", "DInt", "Inner", "*Inner", "struct", "*struct", "[]struct", "map[string]struct", "inline-struct", "float32", "map[string][]int", "map[string]VInt", "PI", "*[]int", "*duration", "UUint", "[]UStr", "[]UCfg", "[]map[string]int", "*regexp", "[2]struct", "[][]VInt", "map[string][]VInt", "uint64", "*UStr", "map[string]UCfg", "URefl", "UVal", "URe", "interface{}(*Inner)", "*[2]int", "map[string][2]int", "UPrim", "IA2", "*map[string]int"}

func (k Kind) String() string { return kindNames[k] }

var (
	tIface = reflect.TypeOf((*interface{})(nil)).Elem()
	tCfg   = reflect.TypeOf((*ucfg.Config)(nil))
	tRegex = reflect.TypeOf((*regexp.Regexp)(nil))
)

var leafTypes = map[Kind]reflect.Type{
	KInt: reflect.TypeOf(int(0)), KInt8: reflect.TypeOf(int8(0)), KUint16: reflect.TypeOf(uint16(0)), KF64: reflect.TypeOf(float64(0)),
	KStr: reflect.TypeOf(""), KBool: reflect.TypeOf(false), KDur: reflect.TypeOf(time.Duration(0)), KF32: reflect.TypeOf(float32(0)), KMSlice: reflect.TypeOf(map[string][]int(nil)),
	KPDur:  reflect.TypeOf((*time.Duration)(nil)),
	KUUint: reflect.TypeOf(UUint{}), KSUStr: reflect.TypeOf([]UStr(nil)), KSUCfg: reflect.TypeOf([]UCfg(nil)),
	KSMap: reflect.TypeOf([]map[string]int(nil)), KRegex: tRegex,
	KUVal: reflect.TypeOf(UVal{}), KURe: reflect.TypeOf(URe{}), KIfPInner: tIface,
	KPA2: reflect.TypeOf((*[2]int)(nil)), KMA2: reflect.TypeOf(map[string][2]int(nil)), KUPrim: reflect.TypeOf(UPrim(0)), KIA2: reflect.TypeOf(IA2{}), KPMInt: reflect.TypeOf((*map[string]int)(nil)),
	KPUStr: reflect.TypeOf((*UStr)(nil)), KMUCfg: reflect.TypeOf(map[string]UCfg(nil)), KURefl: reflect.TypeOf(URefl{}),
	KSSVInt: reflect.TypeOf([][]VInt(nil)), KMSVInt: reflect.TypeOf(map[string][]VInt(nil)), KU64: reflect.TypeOf(uint64(0)),
	KMVInt: reflect.TypeOf(map[string]VInt(nil)), KPI: reflect.TypeOf(PI(0)), KPSInt: reflect.TypeOf((*[]int)(nil)),
	KPInt: reflect.TypeOf((*int)(nil)), KPStr: reflect.TypeOf((*string)(nil)),
	KVInt: reflect.TypeOf(VInt(0)), KVStr: reflect.TypeOf(VStr("")),
	KUStr: reflect.TypeOf(UStr{}), KUInt: reflect.TypeOf(UInt{}), KUBool: reflect.TypeOf(UBool{}), KUFloat: reflect.TypeOf(UFloat{}),
	KUAny: reflect.TypeOf(UAny{}), KUCfg: reflect.TypeOf(UCfg{}),
	KSInt: reflect.TypeOf([]int(nil)), KSStr: reflect.TypeOf([]string(nil)), KSVInt: reflect.TypeOf([]VInt(nil)), KA2: reflect.TypeOf([2]int{}),
	KMInt: reflect.TypeOf(map[string]int(nil)), KMIface: reflect.TypeOf(map[string]interface{}(nil)),
	KIface: tIface, KCfg: tCfg, KDInt: reflect.TypeOf(DInt{}), KInner: reflect.TypeOf(Inner{}), KPInner: reflect.TypeOf((*Inner)(nil)),
}

// Field describes one field of a generated struct type.
type Field struct {
	Kind     Kind
	GoName   string
	Name     string // config name
	ID       string // simcheck id, unique per run
	Policy   string // "", "replace", "append", "prepend" (slices)
	Required bool
	Ignore   bool    // the field carries the ignore option (next to others): nothing may touch it
	Bound    string  // a built-in validator of the tag: "", "min=8", "max=50", "nonzero", "positive" (durations: "min=8s", "max=30s")
	Sub      *Struct // for struct-like kinds
}

// Struct is a generated struct type.
type Struct struct {
	Fields []*Field
	Type   reflect.Type
	TagCfg string // name of the struct tag holding the setting's name (StructTag option), "" = config
	TagVal string // name of the struct tag holding the validators (ValidatorTag option), "" = validate
}

// build creates the reflect type.
func (s *Struct) build() {
	var fs []reflect.StructField
	for _, f := range s.Fields {
		var t reflect.Type
		switch f.Kind {
		case KStruct, KInline:
			t = f.Sub.Type
		case KPStruct:
			t = reflect.PtrTo(f.Sub.Type)
		case KSStruct:
			t = reflect.SliceOf(f.Sub.Type)
		case KAStruct:
			t = reflect.ArrayOf(2, f.Sub.Type)
		case KMStruct:
			t = reflect.MapOf(reflect.TypeOf(""), f.Sub.Type)
		default:
			t = leafTypes[f.Kind]
		}
		tag := f.Name
		if f.Kind == KInline {
			tag = ",inline"
		} else if f.Policy != "" {
			tag += "," + f.Policy
		}
		if f.Ignore {
			// several options in one tag, ignore among them
			if len(f.ID)%2 == 0 {
				tag += ",ignore"
			} else {
				tag = f.Name + ",ignore" + strings.TrimPrefix(tag, f.Name)
			}
			if f.Policy == "" {
				tag += ",replace"
			}
		}
		val := "simcheck=" + f.ID
		if f.Bound != "" {
			val = f.Bound + "," + val
		}
		if f.Required {
			val = "required," + val
		}
		tc, tv := "config", "validate"
		if s.TagCfg != "" {
			// under custom tag names the standard ones are decoys the library must not read
			tc, tv = s.TagCfg, s.TagVal
		}
		st := tc + `:"` + tag + `"`
		if f.Kind != KInline {
			st += ` ` + tv + `:"` + val + `"`
		}
		if s.TagCfg != "" {
			st += ` config:"decoy` + f.Name + `" validate:"min=1000000"`
		}
		fs = append(fs, reflect.StructField{Name: f.GoName, Type: t, Tag: reflect.StructTag(st)})
	}
	s.Type = reflect.StructOf(fs)
}

func itoa(i int) string { return strconv.Itoa(i) }
