package unpack

import (
	"fmt"
	"math"
	"reflect"
	"regexp"
	"sort"
	"strings"
	"time"

	ucfg "github.com/elastic/go-ucfg"

	"harness/model"
	"harness/sim"
)

// FieldCase is the plan for one field of one case: how it is pre-filled,
// whether the config mentions it, and with what.
type FieldCase struct {
	F       *Field
	Pre     bool
	Mention bool
	N       int           // run-unique number the values are derived from
	In      interface{}   // config input for this field (generic Go value), nil if not mentioned
	Len     int           // list length for slice kinds
	Sub     *StructCase   // nested struct plan (KStruct, KPStruct, KInline)
	Elems   []*StructCase // KSStruct / KMStruct elements
	Keys    []string      // KMStruct keys
	Path    string        // dotted path of the setting
	Null0   bool          // list kinds of numbers: the first element of the input is null
	PreVar  int           // pre-filled value: 0 the usual one, 1 the zero value, 2 a negative one
	Ref     bool          // the setting is a reference "${zref<N>}" to a top-level setting holding the value (VarExp)
	Ref2    bool          // ... which is itself a reference to the setting holding the value
}

// StructCase is the plan for a struct value.
type StructCase struct {
	S      *Struct
	Fields []*FieldCase
	Path   string
}

type gen struct {
	r      *sim.R
	ctr    int
	ids    int
	varexp bool // the configs are created with VarExp: settings may be references
	custom bool // Unpack runs with StructTag("cfg") and ValidatorTag("check")
}

// refable: kinds whose setting may be spelled as a reference to another setting.
func refable(k Kind) bool {
	switch k {
	case KInt, KInt8, KUint16, KF64, KStr, KBool, KDur, KPInt, KPStr, KVInt, KVStr, KPI, KUStr, KUInt, KPDur, KSInt, KSStr:
		return true
	}
	return false
}

func (g *gen) next() int { g.ctr++; return g.ctr }

var fieldNames = []string{"a", "b", "c", "d", "e", "f"}

// genStruct draws a struct type.
func (g *gen) genStruct(depth int) *Struct {
	t := g.r.T
	s := &Struct{}
	if g.custom {
		s.TagCfg, s.TagVal = "cfg", "check"
	}
	n := 1 + t.Choose(4, "n-fields")
	inlineUsed := false
	for i := 0; i < n; i++ {
		f := &Field{GoName: "F" + itoa(i), Name: fieldNames[i]}
		g.ids++
		f.ID = "f" + itoa(g.ids)
		k := Kind(t.Choose(int(kindCount), "field-kind"))
		if depth >= 2 && k >= KStruct {
			k = KInt
		}
		if k == KInline && inlineUsed {
			k = KStr
		}
		if g.custom && (k == KInner || k == KPInner || k == KDInt) {
			k = KInt // the hand-written types carry the standard tag names
		}
		f.Kind = k
		switch k {
		case KStruct, KPStruct, KMStruct, KAStruct:
			f.Sub = g.genStruct(depth + 1)
		case KInline:
			f.Sub = g.genStruct(depth + 1)
			// inline fields live in the parent's namespace: give them names of their own
			for _, sf := range f.Sub.Fields {
				if sf.Kind != KInline {
					sf.Name = "n" + sf.ID
				}
			}
			f.Sub.build()
			inlineUsed = true
		case KSInt, KSStr, KSVInt:
			f.Policy = []string{"", "", "replace", "append", "prepend", "merge"}[t.Choose(6, "slice-policy")]
		case KSStruct:
			f.Policy = []string{"", "", "replace"}[t.Choose(3, "struct-slice-policy")]
			f.Sub = g.genStruct(depth + 1)
		}
		if (k <= KStr || k == KPInt || k == KPStr) && t.Chance(1, 5, "required") {
			f.Required = true
		}
		if (k <= KDur || k == KSInt || k == KSStr) && !f.Required && t.Chance(1, 12, "ignored-field") {
			f.Ignore = true
		}
		if boundable(k) && t.Chance(1, 3, "built-in-validator") {
			switch {
			case k == KDur || k == KPDur:
				f.Bound = []string{"min=8s", "max=30s", "nonzero", "positive", "min=7.5", "max=1m"}[t.Choose(6, "bound")]
			case k == KStr || k == KPStr || k == KVStr || k == KPMInt:
				f.Bound = "nonzero"
			case k == KF32:
				f.Bound = []string{"min=8", "max=50", "nonzero", "positive", "max=0.1", "min=0.7"}[t.Choose(6, "bound")]
			default:
				f.Bound = []string{"min=8", "max=50", "nonzero", "positive"}[t.Choose(4, "bound")]
			}
		}
		s.Fields = append(s.Fields, f)
	}
	s.build()
	return s
}

// genCase draws the plan for a struct value.
func (g *gen) genCase(s *Struct, path string, depth int) *StructCase {
	t := g.r.T
	sc := &StructCase{S: s, Path: path}
	for _, f := range s.Fields {
		fc := &FieldCase{F: f, N: g.next()}
		fc.Pre = t.Chance(1, 2, "prefill")
		fc.Mention = f.Required || t.Chance(2, 3, "mention")
		fc.Path = join(path, f.Name)
		if boundable(f.Kind) && !f.Required {
			fc.PreVar = t.Weighted([]int{4, 1, 1}, "prefill-variant")
		}
		if f.Required {
			// the default of a required field: something, or the zero value (which does not satisfy it)
			fc.PreVar = t.Weighted([]int{3, 1}, "required-prefill-variant")
		}
		if g.varexp && refable(f.Kind) && fc.Mention && t.Chance(1, 3, "by-reference") {
			fc.Ref = true
			fc.Ref2 = t.Chance(1, 3, "reference-chain")
			g.r.Probe("unpack: setting spelled as a reference to another setting")
		}
		switch f.Kind {
		case KInline:
			fc.Path = path
			fc.Mention = true
			fc.Sub = g.genCase(f.Sub, path, depth+1)
		case KStruct, KPStruct:
			fc.Sub = g.genCase(f.Sub, fc.Path, depth+1)
			if fc.Sub.hasRequired() {
				fc.Mention = true
			}
		case KAStruct:
			// the elements exist before the call, pre-filled field by field like a struct field
			for i := 0; i < 2; i++ {
				el := g.genCase(f.Sub, join(fc.Path, itoa(i)), depth+1)
				fc.Elems = append(fc.Elems, el)
				if el.hasRequired() {
					fc.Mention = true
				}
			}
		case KSStruct:
			n := 1 + t.Choose(2, "n-elems")
			for i := 0; i < n; i++ {
				fc.Elems = append(fc.Elems, g.genCase(f.Sub, join(fc.Path, itoa(i)), depth+1))
			}
			// a pre-filled list of structs is merged element by element, or replaced as a whole
			// under the replace policy
			if fc.Pre && (!fc.Mention || depth > 0) {
				fc.Pre = false // (only where the list is certain to be set: top level, mentioned)
			}
			for _, el := range fc.Elems {
				if el.hasRequired() {
					fc.Pre = false
				}
			}
			if fc.Pre {
				g.r.Probe("unpack: pre-filled list of structs")
			}
		case KMStruct:
			fc.Pre = false
			n := 1 + t.Choose(2, "n-entries")
			for i := 0; i < n; i++ {
				k := []string{"p", "q"}[i]
				fc.Keys = append(fc.Keys, k)
				fc.Elems = append(fc.Elems, g.genCase(f.Sub, join(fc.Path, k), depth+1))
			}
		case KSInt, KSStr, KSVInt, KPSInt:
			fc.Len = 1 + t.Choose(3, "list-len")
			if f.Kind != KSStr && t.Chance(1, 6, "null-element") {
				fc.Null0 = true
			}
		case KSUCfg, KSMap:
			fc.Pre = false
		case KSUStr:
			fc.Len = 1 + t.Choose(3, "list-len")
		}
		sc.Fields = append(sc.Fields, fc)
	}
	return sc
}

func join(p, n string) string {
	if p == "" {
		return n
	}
	return p + "." + n
}

// ---------------------------------------------------------------------------------------------
// Config input for a plan.

func (sc *StructCase) input() map[string]interface{} {
	m := map[string]interface{}{}
	for _, fc := range sc.Fields {
		if fc.F.Kind == KInline {
			for k, v := range fc.Sub.input() {
				m[k] = v
			}
			continue
		}
		if !fc.Mention {
			continue
		}
		m[fc.F.Name] = fc.input()
	}
	return m
}

// refName is the top-level setting a by-reference field points to.
func (fc *FieldCase) refName() string { return "zref" + itoa(fc.N) }

// input is the setting as it is written in the config.
func (fc *FieldCase) input() interface{} {
	if fc.Ref {
		return "${" + fc.refName() + "}"
	}
	return fc.rawInput()
}

// refs adds the settings the by-reference fields point to.
func (sc *StructCase) refs(out map[string]interface{}) {
	for _, fc := range sc.Fields {
		if fc.Ref {
			if fc.Ref2 {
				out[fc.refName()] = "${zz" + fc.refName() + "}"
				out["zz"+fc.refName()] = fc.In
			} else {
				out[fc.refName()] = fc.In
			}
		}
		if fc.Sub != nil {
			fc.Sub.refs(out)
		}
		for _, e := range fc.Elems {
			e.refs(out)
		}
	}
}

// rawInput is the value of the setting.
func (fc *FieldCase) rawInput() interface{} {
	n := fc.N
	switch fc.F.Kind {
	case KInt, KInt8, KUint16, KPInt, KVInt, KUInt, KPI, KUUint, KUVal, KUPrim:
		return uint64(10 + n%80)
	case KURe:
		return map[string]interface{}{"p": uint64(10 + n%80), "q": "s" + itoa(n)}
	case KIfPInner:
		return map[string]interface{}{"x": uint64(10 + n%80), "y": "s" + itoa(n)}
	case KU64:
		if n%5 == 0 {
			return uint64(math.MaxUint64)
		}
		return uint64(10 + n%80)
	case KSSVInt:
		return []interface{}{[]interface{}{uint64(10 + n%80), uint64(11 + n%80)}}
	case KMSVInt:
		return map[string]interface{}{"p": []interface{}{uint64(10 + n%80)}, "q": []interface{}{uint64(11 + n%80)}}
	case KF64, KUFloat, KF32:
		switch fc.F.Bound {
		case "max=0.1":
			return float64(0.1) // (the bound itself: not representable in a float32, which is no reason to reject it)
		case "min=0.7":
			return float64(0.7)
		}
		return float64(n) + 0.5
	case KStr, KPStr, KVStr, KUStr, KPUStr:
		return "s" + itoa(n)
	case KMUCfg:
		return map[string]interface{}{"p": map[string]interface{}{"a": uint64(1), "b": uint64(2)}, "q": map[string]interface{}{"a": uint64(1)}}
	case KURefl:
		return map[string]interface{}{"p": uint64(1), "q": uint64(2), "r": uint64(3)}
	case KBool, KUBool:
		return n%2 == 0
	case KDur, KPDur:
		if n%3 == 0 {
			return uint64(1 + n%50) // a number means seconds
		}
		return itoa(1+n%50) + "s"
	case KSUStr:
		var l []interface{}
		for i := 0; i < fc.Len; i++ {
			l = append(l, "s"+itoa(n)+"_"+itoa(i))
		}
		return l
	case KSUCfg:
		return []interface{}{map[string]interface{}{"p": uint64(1), "q": uint64(2)}, map[string]interface{}{"p": uint64(1)}}
	case KSMap:
		return []interface{}{map[string]interface{}{"p": uint64(10 + n%80)}, map[string]interface{}{"q": uint64(11 + n%80), "r": uint64(12 + n%80)}}
	case KRegex:
		return "ab+c" + itoa(n)
	case KUAny:
		return "u" + itoa(n)
	case KUCfg:
		return map[string]interface{}{"p": uint64(1), "q": uint64(2)}
	case KSInt, KSVInt, KPSInt:
		var l []interface{}
		for i := 0; i < fc.Len; i++ {
			if i == 0 && fc.Null0 {
				l = append(l, nil)
				continue
			}
			l = append(l, uint64(10+(n+i)%80))
		}
		return l
	case KSStr:
		var l []interface{}
		for i := 0; i < fc.Len; i++ {
			l = append(l, "s"+itoa(n)+"_"+itoa(i))
		}
		return l
	case KA2, KPA2, KIA2:
		return []interface{}{uint64(10 + n%80), uint64(11 + n%80)}
	case KMA2:
		return map[string]interface{}{"p": []interface{}{uint64(10 + n%80), uint64(11 + n%80)}, "q": []interface{}{uint64(12 + n%80), uint64(13 + n%80)}}
	case KPMInt:
		if fc.F.Bound == "nonzero" && n%2 == 0 {
			return map[string]interface{}{} // (no entries: breaks nonzero unless the pre-filled map has some)
		}
		return map[string]interface{}{"p": uint64(10 + n%80), "q": uint64(11 + n%80)}
	case KMInt, KMVInt:
		return map[string]interface{}{"p": uint64(10 + n%80), "q": uint64(11 + n%80)}
	case KMSlice:
		return map[string]interface{}{"p": []interface{}{uint64(10 + n%80)}, "q": []interface{}{uint64(11 + n%80), uint64(12 + n%80)}}
	case KMIface:
		return map[string]interface{}{"p": "s" + itoa(n), "q": []interface{}{uint64(1), uint64(2)}}
	case KIface:
		if n%3 == 0 {
			return map[string]interface{}{"p": uint64(n)}
		}
		return "s" + itoa(n)
	case KCfg:
		return map[string]interface{}{"p": uint64(n), "q": "s" + itoa(n)}
	case KDInt:
		switch n % 3 {
		case 0:
			return map[string]interface{}{"a": uint64(10 + n%80)}
		case 1:
			return map[string]interface{}{"b": "s" + itoa(n)}
		}
		return map[string]interface{}{"a": uint64(10 + n%80), "b": "s" + itoa(n)}
	case KInner, KPInner:
		return map[string]interface{}{"x": uint64(10 + n%80), "y": "s" + itoa(n)}
	case KStruct, KPStruct:
		return fc.Sub.input()
	case KSStruct, KAStruct:
		var l []interface{}
		for _, e := range fc.Elems {
			l = append(l, e.input())
		}
		return l
	case KMStruct:
		m := map[string]interface{}{}
		for i, e := range fc.Elems {
			m[fc.Keys[i]] = e.input()
		}
		return m
	}
	panic("harness: input for kind " + fc.F.Kind.String())
}

// ---------------------------------------------------------------------------------------------
// Pre-filled targets and expected results, both pure functions of the plan.

// boundable: kinds whose fields may carry a built-in validator with a value-level meaning.
func boundable(k Kind) bool {
	switch k {
	case KInt, KInt8, KUint16, KF64, KF32, KStr, KDur, KPInt, KPStr, KVInt, KPI, KPDur, KU64, KVStr, KUPrim, KPMInt:
		return true
	}
	return false
}

func intp(i int) *int       { return &i }
func strp(s string) *string { return &s }

// prefill sets the pre-filled value of the struct v (addressable).
func (sc *StructCase) prefill(v reflect.Value) {
	sharedInts := map[int64]*int{}
	for i, fc := range sc.Fields {
		f := v.Field(i)
		switch fc.F.Kind {
		case KInline, KStruct:
			fc.Sub.prefill(f)
			continue
		case KAStruct:
			for j, el := range fc.Elems {
				el.prefill(f.Index(j))
			}
			continue
		case KSStruct:
			if fc.Pre {
				l := reflect.MakeSlice(f.Type(), len(fc.Elems), len(fc.Elems))
				for j := 0; j < l.Len(); j++ {
					fc.Elems[j].prefill(l.Index(j))
				}
				f.Set(l)
			}
			continue
		case KPStruct:
			if fc.Pre {
				p := reflect.New(fc.F.Sub.Type)
				fc.Sub.prefill(p.Elem())
				f.Set(p)
			}
			continue
		case KInner:
			// unexported and ignored fields are always set: nothing may touch them
			in := Inner{hidden: 3, Ign: "keep"}
			if fc.Pre {
				in.X, in.Y = 5, "old"
			}
			f.Set(reflect.ValueOf(in))
			continue
		}
		if !fc.Pre {
			continue
		}
		// the pre-filled number: 5, or the zero value, or -5
		num := []int64{5, 0, -5}[fc.PreVar]
		str := []string{"old", "", "old"}[fc.PreVar]
		switch fc.F.Kind {
		case KInt, KInt8:
			f.SetInt(num)
		case KUint16:
			f.SetUint(uint64([]int64{5, 0, 5}[fc.PreVar]))
		case KU64:
			f.SetUint([]uint64{5, 0, 1<<63 + 5}[fc.PreVar])
		case KSSVInt:
			f.Set(reflect.ValueOf([][]VInt{{91, 92}, {93}}))
		case KMSVInt:
			f.Set(reflect.ValueOf(map[string][]VInt{"p": {94}, "z": {95, 96}}))
		case KF64, KF32:
			f.SetFloat([]float64{5.5, 0, -5.5}[fc.PreVar])
		case KStr:
			f.SetString(str)
		case KBool:
			f.SetBool(true)
		case KDur:
			f.SetInt(num * int64(time.Hour))
		case KPDur:
			d := time.Duration(num) * time.Hour
			f.Set(reflect.ValueOf(&d))
		case KPInt:
			// fields of one struct pre-filled with the same default share the pointer
			if p, ok := sharedInts[num]; ok {
				f.Set(reflect.ValueOf(p))
			} else {
				p := intp(int(num))
				sharedInts[num] = p
				f.Set(reflect.ValueOf(p))
			}
		case KPStr:
			f.Set(reflect.ValueOf(strp(str)))
		case KVInt:
			f.SetInt(num)
		case KVStr:
			f.SetString(str)
		case KUPrim:
			f.SetInt(num)
		case KUStr:
			f.Set(reflect.ValueOf(UStr{S: "old"}))
		case KPUStr:
			f.Set(reflect.ValueOf(&UStr{S: "old"}))
		case KMUCfg:
			f.Set(reflect.ValueOf(map[string]UCfg{"p": {N: 5}, "z": {N: 9}}))
		case KURefl:
			f.Set(reflect.ValueOf(URefl{N: 5}))
		case KUInt:
			f.Set(reflect.ValueOf(UInt{I: 5}))
		case KUBool:
			f.Set(reflect.ValueOf(UBool{B: true}))
		case KUFloat:
			f.Set(reflect.ValueOf(UFloat{F: 5.5}))
		case KUAny:
			f.Set(reflect.ValueOf(UAny{V: "old"}))
		case KUCfg:
			f.Set(reflect.ValueOf(UCfg{N: 5}))
		case KSInt:
			f.Set(reflect.ValueOf([]int{1, 2}))
		case KSStr:
			f.Set(reflect.ValueOf([]string{"o1", "o2"}))
		case KSVInt:
			f.Set(reflect.ValueOf([]VInt{1, 2}))
		case KA2:
			f.Set(reflect.ValueOf([2]int{1, 2}))
		case KPA2:
			f.Set(reflect.ValueOf(&[2]int{1, 2}))
		case KIA2:
			f.Set(reflect.ValueOf(IA2{1, 2}))
		case KMA2:
			f.Set(reflect.ValueOf(map[string][2]int{"p": {1, 2}, "z": {9, 9}}))
		case KMInt:
			f.Set(reflect.ValueOf(map[string]int{"p": 1, "z": 9}))
		case KPMInt:
			m := map[string]int{"p": 1, "z": 9}
			if fc.PreVar == 1 {
				m = map[string]int{} // (the zero-like variant: a map without entries)
			}
			f.Set(reflect.ValueOf(&m))
		case KMVInt:
			f.Set(reflect.ValueOf(map[string]VInt{"p": 3, "z": 9}))
		case KPI:
			f.SetInt(6)
		case KPSInt:
			f.Set(reflect.ValueOf(&[]int{1, 2}))
		case KUUint:
			f.Set(reflect.ValueOf(UUint{U: 5}))
		case KUVal:
			f.Set(reflect.ValueOf(UVal{V: 5}))
		case KURe:
			f.Set(reflect.ValueOf(URe{P: 5, Q: "old"}))
		case KIfPInner:
			f.Set(reflect.ValueOf(&Inner{X: 5, Y: "old", hidden: 3, Ign: "keep"}))
		case KSUStr:
			f.Set(reflect.ValueOf([]UStr{{S: "o1"}, {S: "o2"}}))
		case KRegex:
			f.Set(reflect.ValueOf(regexp.MustCompile("old")))
		case KCfg:
			c, err := ucfg.NewFrom(map[string]interface{}{"z": uint64(9), "p": uint64(1)})
			if err != nil {
				panic(err)
			}
			f.Set(reflect.ValueOf(c))
		case KMSlice:
			// two entries share one backing array, as when the same default slice is handed out twice
			def := []int{1, 2, 3}
			f.Set(reflect.ValueOf(map[string][]int{"p": def, "q": def[:2], "z": {9}}))
		case KMIface:
			f.Set(reflect.ValueOf(map[string]interface{}{"z": "zz"}))
		case KIface:
			// what an earlier load left there: a primitive of some type (the new setting replaces it,
			// whatever its type)
			f.Set(reflect.ValueOf([]interface{}{uint64(5), "old", true}[fc.PreVar]))
		case KDInt:
			f.Set(reflect.ValueOf(DInt{A: 5, B: "old", C: 9}))
		case KPInner:
			f.Set(reflect.ValueOf(&Inner{X: 5, Y: "old", hidden: 3, Ign: "keep"}))
		}
	}
}

// durOf: a duration setting is a literal with a unit, or a number of seconds.
func durOf(in interface{}) time.Duration {
	if n, ok := in.(uint64); ok {
		return time.Duration(n) * time.Second
	}
	d, _ := time.ParseDuration(in.(string))
	return d
}

func ints(in interface{}) []int {
	var out []int
	for _, x := range in.([]interface{}) {
		if x == nil {
			// a null element: the zero value
			out = append(out, 0)
			continue
		}
		out = append(out, int(x.(uint64)))
	}
	return out
}

// combine applies the list policy of C13 ("merging lists according to the active policy").
func combine(policy string, old, nw reflect.Value) reflect.Value {
	if !old.IsValid() || old.Len() == 0 {
		return nw
	}
	t := nw.Type()
	switch policy {
	case "replace":
		return nw
	case "append":
		return reflect.AppendSlice(reflect.AppendSlice(reflect.MakeSlice(t, 0, 0), old), nw)
	case "prepend":
		return reflect.AppendSlice(reflect.AppendSlice(reflect.MakeSlice(t, 0, 0), nw), old)
	}
	// "merge" is the default spelled out
	// default: index-wise, the longer tail survives
	n := old.Len()
	if nw.Len() > n {
		n = nw.Len()
	}
	out := reflect.MakeSlice(t, n, n)
	reflect.Copy(out, old)
	reflect.Copy(out, nw)
	return out
}

// expect computes the value the struct must have after a successful Unpack:
// the pre-filled value overwritten at exactly the mentioned fields. present
// tells whether the config has a setting for this struct at all.
func (sc *StructCase) expect(v reflect.Value, present bool) {
	sc.prefill(v)
	sc.apply(v, present)
}

// apply overwrites the mentioned fields of v, which already holds its previous value.
func (sc *StructCase) apply(v reflect.Value, present bool) {
	for i, fc := range sc.Fields {
		f := v.Field(i)
		mentioned := present && fc.Mention
		if fc.F.Ignore {
			continue // whatever the config says
		}
		switch fc.F.Kind {
		case KInline:
			fc.Sub.apply(f, present)
			continue
		case KStruct:
			fc.Sub.apply(f, mentioned)
			continue
		case KAStruct:
			// the settings are merged into the elements the array holds; without a setting nothing is touched
			if mentioned {
				for j, el := range fc.Elems {
					el.apply(f.Index(j), true)
				}
			}
			continue
		case KPStruct:
			switch {
			case !mentioned:
				// the pointer and what it points to stay as they were
			case f.IsNil():
				p := reflect.New(fc.F.Sub.Type)
				fc.Sub.applyFresh(p.Elem())
				f.Set(p)
			default:
				// the pointed-to struct is shared with the caller and updated
				fc.Sub.apply(f.Elem(), true)
			}
			continue
		case KDInt:
			// InitDefaults runs before the settings are applied, mentioned or not
			d := DInt{A: 7, B: "dflt", C: int(f.FieldByName("C").Int())}
			if mentioned {
				in := fc.In.(map[string]interface{})
				if a, ok := in["a"]; ok {
					d.A = int(a.(uint64))
				}
				if b, ok := in["b"]; ok {
					d.B = b.(string)
				}
			}
			f.Set(reflect.ValueOf(d))
			continue
		case KIA2:
			// InitDefaults runs on the field, then the setting (a whole list) replaces what it made
			if mentioned {
				l := ints(fc.In)
				f.Set(reflect.ValueOf(IA2{l[0], l[1]}))
			} else {
				f.Set(reflect.ValueOf(IA2{71, 72}))
			}
			continue
		case KPI:
			// without a setting the value is what InitDefaults makes of the zero value
			if mentioned {
				f.SetInt(int64(fc.In.(uint64)))
			} else {
				f.SetInt(133)
			}
			continue
		}
		if !mentioned {
			continue
		}
		in := fc.In
		switch fc.F.Kind {
		case KInt, KInt8, KVInt:
			f.SetInt(int64(in.(uint64)))
		case KUint16, KU64:
			f.SetUint(in.(uint64))
		case KSSVInt:
			old := f
			var nw [][]VInt
			for _, x := range in.([]interface{}) {
				var l []VInt
				for _, y := range ints(x) {
					l = append(l, VInt(y))
				}
				nw = append(nw, l)
			}
			// index-wise at both levels, the longer tails survive
			out := [][]VInt{}
			for i := 0; i < old.Len() || i < len(nw); i++ {
				switch {
				case i >= len(nw):
					out = append(out, old.Index(i).Interface().([]VInt))
				case i >= old.Len():
					out = append(out, nw[i])
				default:
					out = append(out, combine("", old.Index(i), reflect.ValueOf(nw[i])).Interface().([]VInt))
				}
			}
			f.Set(reflect.ValueOf(out))
		case KMSVInt:
			m := map[string][]VInt{}
			if !f.IsNil() {
				for _, k := range f.MapKeys() {
					m[k.String()] = f.MapIndex(k).Interface().([]VInt)
				}
			}
			for k, x := range in.(map[string]interface{}) {
				var l []VInt
				for _, y := range ints(x) {
					l = append(l, VInt(y))
				}
				m[k] = combine("", reflect.ValueOf(m[k]), reflect.ValueOf(l)).Interface().([]VInt)
			}
			f.Set(reflect.ValueOf(m))
		case KF64, KF32:
			f.SetFloat(in.(float64))
		case KStr, KVStr:
			f.SetString(in.(string))
		case KUPrim:
			f.SetInt(int64(in.(uint64)))
		case KBool:
			f.SetBool(in.(bool))
		case KDur:
			f.SetInt(int64(durOf(in)))
		case KPDur:
			d := durOf(in)
			f.Set(reflect.ValueOf(&d))
		case KUUint:
			f.Set(reflect.ValueOf(UUint{U: in.(uint64) + 3}))
		case KUVal:
			f.Set(reflect.ValueOf(UVal{V: int64(in.(uint64)) + 1000}))
		case KURe:
			m := in.(map[string]interface{})
			f.Set(reflect.ValueOf(URe{P: int(m["p"].(uint64)), Q: m["q"].(string)}))
		case KIfPInner:
			m := in.(map[string]interface{})
			if f.IsNil() {
				// nothing there: the generic form of the setting
				f.Set(reflect.ValueOf(in))
			} else {
				// the pointer the interface holds stays, what it points to is updated
				cur := *f.Elem().Interface().(*Inner)
				cur.X, cur.Y = VInt(m["x"].(uint64)), m["y"].(string)
				f.Set(reflect.ValueOf(&cur))
			}
		case KSUStr:
			var l []UStr
			for _, x := range in.([]interface{}) {
				l = append(l, UStr{S: "<" + x.(string) + ">"})
			}
			f.Set(combine("", f, reflect.ValueOf(l)))
		case KSUCfg:
			f.Set(reflect.ValueOf([]UCfg{{N: 102}, {N: 101}}))
		case KSMap:
			var l []map[string]int
			for _, x := range in.([]interface{}) {
				m := map[string]int{}
				for k, v := range x.(map[string]interface{}) {
					m[k] = int(v.(uint64))
				}
				l = append(l, m)
			}
			f.Set(reflect.ValueOf(l))
		case KRegex:
			f.Set(reflect.ValueOf(regexp.MustCompile(in.(string))))
		case KPInt:
			f.Set(reflect.ValueOf(intp(int(in.(uint64)))))
		case KPStr:
			f.Set(reflect.ValueOf(strp(in.(string))))
		case KUStr:
			f.Set(reflect.ValueOf(UStr{S: "<" + in.(string) + ">"}))
		case KPUStr:
			f.Set(reflect.ValueOf(&UStr{S: "<" + in.(string) + ">"}))
		case KMUCfg:
			m := map[string]UCfg{}
			if !f.IsNil() {
				for _, k := range f.MapKeys() {
					m[k.String()] = f.MapIndex(k).Interface().(UCfg)
				}
			}
			m["p"], m["q"] = UCfg{N: 102}, UCfg{N: 101}
			f.Set(reflect.ValueOf(m))
		case KURefl:
			f.Set(reflect.ValueOf(URefl{N: 203}))
		case KUInt:
			f.Set(reflect.ValueOf(UInt{I: 2 * int64(in.(uint64))}))
		case KUBool:
			f.Set(reflect.ValueOf(UBool{B: in.(bool), Set: true}))
		case KUFloat:
			f.Set(reflect.ValueOf(UFloat{F: in.(float64) + 1}))
		case KUAny:
			f.Set(reflect.ValueOf(UAny{V: in.(string)}))
		case KUCfg:
			f.Set(reflect.ValueOf(UCfg{N: 102}))
		case KSInt:
			f.Set(combine(fc.F.Policy, f, reflect.ValueOf(ints(in))))
		case KSVInt:
			var l []VInt
			for _, x := range ints(in) {
				l = append(l, VInt(x))
			}
			f.Set(combine(fc.F.Policy, f, reflect.ValueOf(l)))
		case KSStr:
			var l []string
			for _, x := range in.([]interface{}) {
				l = append(l, x.(string))
			}
			f.Set(combine(fc.F.Policy, f, reflect.ValueOf(l)))
		case KA2:
			l := ints(in)
			f.Set(reflect.ValueOf([2]int{l[0], l[1]}))
		case KPA2:
			l := ints(in)
			f.Set(reflect.ValueOf(&[2]int{l[0], l[1]}))
		case KMA2:
			m := map[string][2]int{}
			if !f.IsNil() {
				for _, k := range f.MapKeys() {
					m[k.String()] = f.MapIndex(k).Interface().([2]int)
				}
			}
			for k, x := range in.(map[string]interface{}) {
				l := ints(x)
				m[k] = [2]int{l[0], l[1]}
			}
			f.Set(reflect.ValueOf(m))
		case KPMInt:
			m := map[string]int{}
			if !f.IsNil() {
				for _, k := range f.Elem().MapKeys() {
					m[k.String()] = int(f.Elem().MapIndex(k).Int())
				}
			}
			for k, x := range in.(map[string]interface{}) {
				m[k] = int(x.(uint64))
			}
			f.Set(reflect.ValueOf(&m))
		case KMInt:
			m := map[string]int{}
			if !f.IsNil() {
				for _, k := range f.MapKeys() {
					m[k.String()] = int(f.MapIndex(k).Int())
				}
			}
			for k, x := range in.(map[string]interface{}) {
				m[k] = int(x.(uint64))
			}
			f.Set(reflect.ValueOf(m))
		case KMVInt:
			m := map[string]VInt{}
			if !f.IsNil() {
				for _, k := range f.MapKeys() {
					m[k.String()] = VInt(f.MapIndex(k).Int())
				}
			}
			for k, x := range in.(map[string]interface{}) {
				m[k] = VInt(x.(uint64))
			}
			f.Set(reflect.ValueOf(m))
		case KPSInt:
			old := reflect.ValueOf([]int(nil))
			if !f.IsNil() {
				old = f.Elem()
			}
			nw := combine("", old, reflect.ValueOf(ints(in))).Interface().([]int)
			f.Set(reflect.ValueOf(&nw))
		case KMSlice:
			m := map[string][]int{}
			if !f.IsNil() {
				for _, k := range f.MapKeys() {
					m[k.String()] = f.MapIndex(k).Interface().([]int)
				}
			}
			for k, x := range in.(map[string]interface{}) {
				// a list under an existing key is merged index-wise (default policy), the longer tail survives
				m[k] = combine("", reflect.ValueOf(m[k]), reflect.ValueOf(ints(x))).Interface().([]int)
			}
			f.Set(reflect.ValueOf(m))
		case KMIface:
			m := map[string]interface{}{}
			if !f.IsNil() {
				for _, k := range f.MapKeys() {
					m[k.String()] = f.MapIndex(k).Interface()
				}
			}
			for k, x := range in.(map[string]interface{}) {
				m[k] = x
			}
			f.Set(reflect.ValueOf(m))
		case KIface:
			f.Set(reflect.ValueOf(in))
		case KCfg:
			m := map[string]interface{}{}
			if !f.IsNil() {
				// the settings are merged into the config the field already holds
				m["z"], m["p"] = uint64(9), uint64(1)
			}
			for k, v := range in.(map[string]interface{}) {
				m[k] = v
			}
			c, err := ucfg.NewFrom(m)
			if err != nil {
				panic(err)
			}
			f.Set(reflect.ValueOf(c))
		case KInner:
			cur := f.Interface().(Inner)
			m := in.(map[string]interface{})
			cur.X, cur.Y = VInt(m["x"].(uint64)), m["y"].(string)
			f.Set(reflect.ValueOf(cur))
		case KPInner:
			m := in.(map[string]interface{})
			cur := &Inner{}
			if !f.IsNil() {
				c := *f.Interface().(*Inner)
				cur = &c
			}
			cur.X, cur.Y = VInt(m["x"].(uint64)), m["y"].(string)
			f.Set(reflect.ValueOf(cur))
		case KSStruct:
			if !f.IsNil() && f.Len() > 0 && fc.F.Policy != "replace" {
				// index-wise: the settings are merged into the elements the list holds, the tail stays
				l := reflect.MakeSlice(f.Type(), f.Len(), f.Len())
				reflect.Copy(l, f)
				for j, e := range fc.Elems {
					e.apply(l.Index(j), true)
				}
				f.Set(l)
				break
			}
			l := reflect.MakeSlice(f.Type(), len(fc.Elems), len(fc.Elems))
			for j, e := range fc.Elems {
				e.applyFresh(l.Index(j))
			}
			f.Set(l)
		case KMStruct:
			m := reflect.MakeMap(f.Type())
			for j, e := range fc.Elems {
				x := reflect.New(fc.F.Sub.Type).Elem()
				e.applyFresh(x)
				m.SetMapIndex(reflect.ValueOf(fc.Keys[j]), x)
			}
			f.Set(m)
		}
	}
}

// applyFresh: a struct created by Unpack itself (element of a new slice or
// map, new pointer) starts from the zero value, not from a pre-fill.
func (sc *StructCase) applyFresh(v reflect.Value) {
	for i, fc := range sc.Fields {
		if fc.F.Kind == KInner {
			// the zero Inner: no hidden / ignored values
			v.Field(i).Set(reflect.Zero(v.Field(i).Type()))
		}
	}
	save := sc.clearPre()
	sc.apply(v, true)
	sc.restorePre(save)
}

func (sc *StructCase) clearPre() []bool {
	var save []bool
	for _, fc := range sc.Fields {
		save = append(save, fc.Pre)
		fc.Pre = false
		if fc.Sub != nil {
			save = append(save, fc.Sub.clearPre()...)
		}
	}
	return save
}

func (sc *StructCase) restorePre(save []bool) []bool {
	for _, fc := range sc.Fields {
		fc.Pre = save[0]
		save = save[1:]
		if fc.Sub != nil {
			save = fc.Sub.restorePre(save)
		}
	}
	return save
}

// hasRequired: does the struct (transitively through value structs and inline fields) hold a required field?
func (sc *StructCase) hasRequired() bool {
	for _, fc := range sc.Fields {
		if fc.F.Required {
			return true
		}
		if (fc.F.Kind == KStruct || fc.F.Kind == KInline || (fc.F.Kind == KPStruct && fc.Pre)) && fc.Sub.hasRequired() {
			return true
		}
		if fc.F.Kind == KAStruct {
			for _, el := range fc.Elems {
				if el.hasRequired() {
					return true
				}
			}
		}
	}
	return false
}

// bind computes the inputs once (so that In is available to expect and to the fault generators).
func (sc *StructCase) bind() {
	for _, fc := range sc.Fields {
		if fc.Sub != nil {
			fc.Sub.bind()
		}
		for _, e := range fc.Elems {
			e.bind()
		}
		if fc.Mention && fc.F.Kind != KInline {
			fc.In = fc.rawInput()
		}
	}
}

// ---------------------------------------------------------------------------------------------
// Comparison of a result with the expected value.

func canonCfg(c *ucfg.Config) string {
	if c == nil {
		return "<nil config>"
	}
	var m map[string]interface{}
	if err := c.Unpack(&m); err != nil {
		return "<unpack error: " + err.Error() + ">"
	}
	return model.CanonValue(m)
}

// diffValues returns "" if got equals want, else a description of the first difference.
func diffValues(path string, got, want reflect.Value) string {
	if got.Type() != want.Type() {
		return fmt.Sprintf("%s: type %v vs %v", path, got.Type(), want.Type())
	}
	switch got.Kind() {
	case reflect.Ptr:
		if got.Type() == tRegex {
			g, w := "<nil>", "<nil>"
			if !got.IsNil() {
				g = got.Interface().(*regexp.Regexp).String()
			}
			if !want.IsNil() {
				w = want.Interface().(*regexp.Regexp).String()
			}
			if g != w {
				return fmt.Sprintf("%s: regexp %s, expected %s", path, g, w)
			}
			return ""
		}
		if got.Type() == tCfg {
			var g, w *ucfg.Config
			if !got.IsNil() {
				g = (*ucfg.Config)(got.UnsafePointer())
			}
			if !want.IsNil() {
				w = (*ucfg.Config)(want.UnsafePointer())
			}
			if (g == nil) != (w == nil) || (g != nil && canonCfg(g) != canonCfg(w)) {
				return fmt.Sprintf("%s: config %s, expected %s", path, canonCfg(g), canonCfg(w))
			}
			return ""
		}
		if got.IsNil() || want.IsNil() {
			if got.IsNil() != want.IsNil() {
				return fmt.Sprintf("%s: nil-ness differs (got nil: %v, expected nil: %v)", path, got.IsNil(), want.IsNil())
			}
			return ""
		}
		return diffValues(path, got.Elem(), want.Elem())
	case reflect.Struct:
		for i := 0; i < got.NumField(); i++ {
			if d := diffValues(path+"."+got.Type().Field(i).Name, got.Field(i), want.Field(i)); d != "" {
				return d
			}
		}
		return ""
	case reflect.Slice:
		if got.Len() != want.Len() {
			return fmt.Sprintf("%s: length %d, expected %d (%v vs %v)", path, got.Len(), want.Len(), show(got), show(want))
		}
		for i := 0; i < got.Len(); i++ {
			if d := diffValues(path+"["+itoa(i)+"]", got.Index(i), want.Index(i)); d != "" {
				return d
			}
		}
		return ""
	case reflect.Array:
		for i := 0; i < got.Len(); i++ {
			if d := diffValues(path+"["+itoa(i)+"]", got.Index(i), want.Index(i)); d != "" {
				return d
			}
		}
		return ""
	case reflect.Map:
		if got.Len() != want.Len() {
			return fmt.Sprintf("%s: %d entries, expected %d (%v vs %v)", path, got.Len(), want.Len(), show(got), show(want))
		}
		keys := want.MapKeys()
		sort.Slice(keys, func(i, j int) bool { return keys[i].String() < keys[j].String() })
		for _, k := range keys {
			g := got.MapIndex(k)
			if !g.IsValid() {
				return fmt.Sprintf("%s: key %q missing", path, k.String())
			}
			if d := diffValues(path+"["+k.String()+"]", g, want.MapIndex(k)); d != "" {
				return d
			}
		}
		return ""
	case reflect.Interface:
		if got.IsNil() || want.IsNil() {
			if got.IsNil() != want.IsNil() {
				return fmt.Sprintf("%s: %v, expected %v", path, show(got), show(want))
			}
			return ""
		}
		if got.Elem().Type() != want.Elem().Type() {
			return fmt.Sprintf("%s: holds a %v, expected a %v", path, got.Elem().Type(), want.Elem().Type())
		}
		if k := got.Elem().Kind(); k == reflect.Ptr || k == reflect.Struct {
			return diffValues(path, got.Elem(), want.Elem())
		}
		g, w := model.CanonValue(normIface(got.Elem())), model.CanonValue(normIface(want.Elem()))
		if g != w {
			return fmt.Sprintf("%s: %s, expected %s", path, g, w)
		}
		return ""
	case reflect.Int, reflect.Int8, reflect.Int16, reflect.Int32, reflect.Int64:
		if got.Int() != want.Int() {
			return fmt.Sprintf("%s: %d, expected %d", path, got.Int(), want.Int())
		}
	case reflect.Uint, reflect.Uint8, reflect.Uint16, reflect.Uint32, reflect.Uint64:
		if got.Uint() != want.Uint() {
			return fmt.Sprintf("%s: %d, expected %d", path, got.Uint(), want.Uint())
		}
	case reflect.Float32, reflect.Float64:
		if got.Float() != want.Float() {
			return fmt.Sprintf("%s: %v, expected %v", path, got.Float(), want.Float())
		}
	case reflect.String:
		if got.String() != want.String() {
			return fmt.Sprintf("%s: %q, expected %q", path, got.String(), want.String())
		}
	case reflect.Bool:
		if got.Bool() != want.Bool() {
			return fmt.Sprintf("%s: %v, expected %v", path, got.Bool(), want.Bool())
		}
	}
	return ""
}

func normIface(v reflect.Value) interface{} {
	if v.CanInterface() {
		return v.Interface()
	}
	return fmt.Sprint(v)
}

func show(v reflect.Value) string {
	if !v.IsValid() {
		return "<invalid>"
	}
	s := fmt.Sprintf("%+v", v)
	if len(s) > 200 {
		s = s[:200] + "…"
	}
	return s
}

// describeType renders a struct type compactly.
func describeType(s *Struct, pre string) string {
	var parts []string
	for _, f := range s.Fields {
		d := f.Name + ":" + f.Kind.String()
		if f.Policy != "" {
			d += "," + f.Policy
		}
		if f.Required {
			d += ",required"
		}
		if f.Ignore {
			d += ",ignore"
		}
		if f.Bound != "" {
			d += "," + f.Bound
		}
		if f.Sub != nil {
			d += describeType(f.Sub, "")
		}
		parts = append(parts, d)
	}
	return pre + "{" + strings.Join(parts, " ") + "}"
}
