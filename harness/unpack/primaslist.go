package unpack

import (
	"fmt"
	"reflect"

	ucfg "github.com/elastic/go-ucfg"

	"harness/sim"
)

// A setting that is a bare primitive where the target has a list is a list of one: it is merged
// into the pre-filled slice under the field's policy exactly like the same value written as a
// list (C13: lists are merged according to the active policy, nothing else changes).
type palDefault struct {
	Hosts []string `config:"hosts"`
	Keep  []string `config:"keep"`
}

type palAppend struct {
	Hosts []string `config:"hosts,append"`
	Keep  []string `config:"keep"`
}

type palPrepend struct {
	Hosts []string `config:"hosts,prepend"`
	Keep  []string `config:"keep"`
}

type palReplace struct {
	Hosts []string `config:"hosts,replace"`
	Keep  []string `config:"keep"`
}

func primitiveAsListCase(r *sim.R, prop string) {
	t := r.T
	e := &E{R: r, Prop: prop}
	opts := []ucfg.Option{ucfg.PathSep(".")}
	r.Probe("unpack: a bare primitive setting for a pre-filled slice field")
	n := t.Choose(4, "pre-filled-entries")
	old := make([]string, n)
	for i := range old {
		old[i] = fmt.Sprintf("o%d", i)
	}
	bare := t.Chance(2, 3, "spelled-as-a-bare-primitive")
	var setting interface{} = "new"
	if !bare {
		setting = []interface{}{"new"}
	}
	cfg, err := ucfg.NewFrom(map[string]interface{}{"hosts": setting}, opts...)
	if err != nil {
		panic("harness: primitive as list config: " + err.Error())
	}
	pol := t.Choose(4, "field-policy")
	keep := []string{"k"}
	var target interface{}
	var want []string
	cp := append([]string{}, old...)
	switch pol {
	case 0:
		target = &palDefault{Hosts: cp, Keep: keep}
		want = append([]string{"new"}, old[min(1, len(old)):]...)
	case 1:
		target = &palAppend{Hosts: cp, Keep: keep}
		want = append(append([]string{}, old...), "new")
	case 2:
		target = &palPrepend{Hosts: cp, Keep: keep}
		want = append([]string{"new"}, old...)
	default:
		target = &palReplace{Hosts: cp, Keep: keep}
		want = []string{"new"}
	}
	r.MustComplete("Unpack", func() { err = cfg.Unpack(target, opts...) })
	r.StateOps++
	v := reflect.ValueOf(target).Elem()
	got := v.Field(0).Interface().([]string)
	r.Tracef("config {hosts: %v} into %T pre-filled %v: %v, %v", setting, target, old, got, err)
	if err != nil {
		e.fail("success", "Unpack", nil, "Unpack of {hosts: %v} into %T pre-filled %v failed: %v", setting, target, old, err)
		return
	}
	if fmt.Sprint(got) != fmt.Sprint(want) || fmt.Sprint(v.Field(1).Interface()) != fmt.Sprint(keep) {
		e.fail("result", "Unpack", nil, "Unpack did not produce 'pre-filled value overwritten at exactly the mentioned fields': {hosts: %v} (bare primitive: %v) into %T pre-filled %v gives hosts = %v, keep = %v; merging the list of one under the field's policy gives %v, keep = %v", setting, bare, target, old, got, v.Field(1).Interface(), want, keep)
	}
}

func min(a, b int) int {
	if a < b {
		return a
	}
	return b
}
