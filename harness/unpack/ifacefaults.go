package unpack

import (
	"fmt"

	ucfg "github.com/elastic/go-ucfg"

	"harness/sim"
)

// Generic targets (interface{}, []interface{}, map[string]interface{}) accept any value, so the only
// single faults a setting below them can have are those of its evaluation: a reference nothing
// resolves, alone or under the error operator. The error names that setting (C14).
type ifaceTarget struct {
	L []interface{}          `config:"l"`
	M map[string]interface{} `config:"m"`
	A interface{}            `config:"a"`
	N struct {
		L []interface{} `config:"l"`
	} `config:"n"`
	P *[]interface{} `config:"p"`
}

func ifaceFaultCase(r *sim.R, prop string) {
	t := r.T
	e := &E{R: r, Prop: prop}
	opts := []ucfg.Option{ucfg.PathSep("."), ucfg.VarExp}
	if t.Chance(1, 2, "with-meta") {
		e.Source = "file" + itoa(1+t.Choose(9, "file")) + ".yml"
		opts = append(opts, ucfg.MetaData(ucfg.Meta{Source: e.Source}))
	}
	list := func(n int) []interface{} {
		l := make([]interface{}, n)
		for i := range l {
			switch i % 3 {
			case 0:
				l[i] = "v" + itoa(i)
			case 1:
				l[i] = "${ok}"
			default:
				l[i] = uint64(i)
			}
		}
		return l
	}
	n := 2 + t.Choose(3, "list-len")
	in := map[string]interface{}{
		"ok": "fine",
		"l":  list(n),
		"m":  map[string]interface{}{"k": "${ok}", "q": list(n)},
		"a":  list(n),
		"n":  map[string]interface{}{"l": list(n)},
		"p":  list(n),
	}
	// the position of the fault
	i := t.Choose(n, "fault-index")
	type place struct {
		path string
		set  func(v interface{})
	}
	places := []place{
		{"l." + itoa(i), func(v interface{}) { in["l"].([]interface{})[i] = v }},
		{"m.k", func(v interface{}) { in["m"].(map[string]interface{})["k"] = v }},
		{"m.q." + itoa(i), func(v interface{}) { in["m"].(map[string]interface{})["q"].([]interface{})[i] = v }},
		{"a." + itoa(i), func(v interface{}) { in["a"].([]interface{})[i] = v }},
		{"n.l." + itoa(i), func(v interface{}) { in["n"].(map[string]interface{})["l"].([]interface{})[i] = v }},
		{"p." + itoa(i), func(v interface{}) { in["p"].([]interface{})[i] = v }},
	}
	pl := places[t.Choose(len(places), "fault-place")]
	kind := t.Choose(2, "fault-kind")
	var bad interface{}
	var what string
	switch kind {
	case 0:
		bad, what = "${zmissing}", "unresolvable reference"
	default:
		bad, what = "x${zmissing:?must be set}", "error operator on an unresolvable reference"
	}
	r.Probe("unpack: evaluation fault below a generic target (interface{}, []interface{}, map[string]interface{})")

	// fault-free first
	cfg, err := ucfg.NewFrom(in, opts...)
	if err != nil {
		panic("harness: generic target config: " + err.Error())
	}
	var ok ifaceTarget
	r.MustComplete("Unpack", func() { err = cfg.Unpack(&ok, opts...) })
	r.StateOps++
	if err != nil {
		e.fail("success", "Unpack", nil, "Unpack of a valid config into generic targets failed: %v", err)
		return
	}
	r.NextStep()
	pl.set(bad)
	cfg, err = ucfg.NewFrom(in, opts...)
	if err != nil {
		panic("harness: generic target config: " + err.Error())
	}
	pre := []interface{}{"pre"}
	target := ifaceTarget{}
	if t.Bool("pre-filled") {
		// (a non-nil interface{} field lends its type to the new value: it holds a list already)
		target.L, target.A, target.P = []interface{}{"pre0"}, []interface{}{"pre"}, &pre
		target.M = map[string]interface{}{"z": "pre"}
	}
	what = fmt.Sprintf("%s at %s (= %v)", what, pl.path, bad)
	r.MustComplete("Unpack", func() { err = cfg.Unpack(&target, opts...) })
	r.Tracef("fault: %s -> %v", what, err)
	r.Fault("corrupted setting: evaluation fault below a generic target")
	if err == nil {
		e.fail("fault-fails", "Unpack", map[string]string{"what": what}, "Unpack accepted a setting that cannot be evaluated: %s; result %+v", what, target)
		return
	}
	e.checkError(err, "Unpack", []string{pl.path}, false, what)
}
