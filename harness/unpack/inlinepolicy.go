package unpack

import (
	"fmt"
	"reflect"

	ucfg "github.com/elastic/go-ucfg"

	"harness/model"
	"harness/sim"
)

// Inline fields with a list policy of their own in the tag: the field opens no namespace, the
// settings of the enclosing object are its settings, and lists among them are merged into the
// pre-filled value according to the policy the tag names.

type inlMapDefault struct {
	Other  int                 `config:"other"`
	Labels map[string][]string `config:",inline"`
}
type inlMapReplace struct {
	Other  int                 `config:"other"`
	Labels map[string][]string `config:",inline,replace"`
}
type inlMapAppend struct {
	Other  int                 `config:"other"`
	Labels map[string][]string `config:",inline,append"`
}
type inlMapPrepend struct {
	Other  int                 `config:"other"`
	Labels map[string][]string `config:",inline,prepend"`
}
type inlCfgDefault struct {
	Other int          `config:"other"`
	Rest  *ucfg.Config `config:",inline"`
}
type inlCfgReplace struct {
	Other int          `config:"other"`
	Rest  *ucfg.Config `config:",inline,replace"`
}
type inlCfgAppend struct {
	Other int          `config:"other"`
	Rest  *ucfg.Config `config:",inline,append"`
}
type inlCfgPrepend struct {
	Other int          `config:"other"`
	Rest  *ucfg.Config `config:",inline,prepend"`
}

func strs(prefix string, n int) []string {
	out := make([]string, n)
	for i := range out {
		out[i] = prefix + itoa(i)
	}
	return out
}

func ifaces(s []string) []interface{} {
	out := make([]interface{}, len(s))
	for i, x := range s {
		out[i] = x
	}
	return out
}

// combineStrs: the list the policy makes of the pre-filled list and the configured one.
func combineStrs(policy int, old, nw []string) []string {
	switch policy {
	case 1: // replace
		return nw
	case 2: // append
		return append(append([]string{}, old...), nw...)
	case 3: // prepend
		return append(append([]string{}, nw...), old...)
	}
	// default: index-wise, the longer tail survives
	out := append([]string{}, nw...)
	if len(old) > len(nw) {
		out = append(out, old[len(nw):]...)
	}
	return out
}

func inlinePolicyCase(r *sim.R, prop string) {
	t := r.T
	e := &E{R: r, Prop: prop}
	policy := t.Choose(4, "inline-policy")
	asConfig := t.Bool("inline-config")
	old, nw := strs("o", 1+t.Choose(3, "old-len")), strs("n", 1+t.Choose(3, "new-len"))
	keep := strs("k", 1+t.Choose(2, "keep-len"))
	opts := []ucfg.Option{ucfg.PathSep(".")}
	in := map[string]interface{}{"tags": ifaces(nw), "fresh": []interface{}{"f"}}
	cfg, err := ucfg.NewFrom(in, opts...)
	if err != nil {
		panic("harness: inline policy config: " + err.Error())
	}
	name := []string{"default", "replace", "append", "prepend"}[policy]
	r.Probe("unpack: inline field with a list policy in its own tag")
	// what the field holds afterwards
	want := map[string]interface{}{"tags": ifaces(combineStrs(policy, old, nw)), "fresh": []interface{}{"f"}, "keep": ifaces(keep)}
	var target interface{}
	var got func() (interface{}, int)
	if asConfig {
		pre, perr := ucfg.NewFrom(map[string]interface{}{"tags": ifaces(old), "keep": ifaces(keep)}, opts...)
		if perr != nil {
			panic("harness: inline policy pre-fill: " + perr.Error())
		}
		if policy == 1 {
			// replace: what the pre-filled config held and the settings do not mention goes as well
			delete(want, "keep")
		}
		read := func(c *ucfg.Config) interface{} {
			var m map[string]interface{}
			if uerr := c.Unpack(&m, opts...); uerr != nil {
				return "unpack error: " + uerr.Error()
			}
			return m
		}
		switch policy {
		case 0:
			x := &inlCfgDefault{Other: 5, Rest: pre}
			target, got = x, func() (interface{}, int) { return read(x.Rest), x.Other }
		case 1:
			x := &inlCfgReplace{Other: 5, Rest: pre}
			target, got = x, func() (interface{}, int) { return read(x.Rest), x.Other }
		case 2:
			x := &inlCfgAppend{Other: 5, Rest: pre}
			target, got = x, func() (interface{}, int) { return read(x.Rest), x.Other }
		default:
			x := &inlCfgPrepend{Other: 5, Rest: pre}
			target, got = x, func() (interface{}, int) { return read(x.Rest), x.Other }
		}
	} else {
		pre := map[string][]string{"tags": old, "keep": keep}
		read := func(m map[string][]string) interface{} {
			out := map[string]interface{}{}
			for k, v := range m {
				out[k] = ifaces(v)
			}
			return out
		}
		switch policy {
		case 0:
			x := &inlMapDefault{Other: 5, Labels: pre}
			target, got = x, func() (interface{}, int) { return read(x.Labels), x.Other }
		case 1:
			x := &inlMapReplace{Other: 5, Labels: pre}
			target, got = x, func() (interface{}, int) { return read(x.Labels), x.Other }
		case 2:
			x := &inlMapAppend{Other: 5, Labels: pre}
			target, got = x, func() (interface{}, int) { return read(x.Labels), x.Other }
		default:
			x := &inlMapPrepend{Other: 5, Labels: pre}
			target, got = x, func() (interface{}, int) { return read(x.Labels), x.Other }
		}
	}
	r.Tracef("config %v into %v pre-filled with tags %v, keep %v (inline, policy %s)", in, reflect.TypeOf(target).Elem(), old, keep, name)
	r.MustComplete("Unpack", func() { err = cfg.Unpack(target, opts...) })
	r.StateOps++
	if err != nil {
		e.fail("success", "Unpack", nil, "Unpack of a valid config into a struct with an inline field (policy %s) failed: %v", name, err)
		return
	}
	g, other := got()
	r.Tracef("result %v", g)
	if gc, wc := model.CanonValue(g), model.CanonValue(want); gc != wc || other != 5 {
		e.fail("result", "Unpack", map[string]string{"got": gc, "want": wc, "policy": name, "config": fmt.Sprint(asConfig)},
			"Unpack into %v: the inline field tagged %q holds %s (unmentioned field: %d); merging the settings into the pre-filled value under that policy gives %s (and 5)",
			reflect.TypeOf(target).Elem(), name, gc, other, wc)
	}
}

// InlBase is the struct an inline pointer field points to.
type InlBase struct {
	A int    `config:"a"`
	B string `config:"b"`
}

type inlPtrStruct struct {
	Base *InlBase `config:",inline"`
	X    int      `config:"x"`
}

type inlPtrMap struct {
	M *map[string]interface{} `config:",inline"`
	X int                     `config:"x"`
}

// inlinePtrCase: an inline field that is a pointer, nil or pre-filled. A nil pointer is allocated
// like that of any other field; the settings of the enclosing object are the settings of what it
// points to.
func inlinePtrCase(r *sim.R, prop string) {
	t := r.T
	e := &E{R: r, Prop: prop}
	opts := []ucfg.Option{ucfg.PathSep(".")}
	a, x := 10+t.Choose(80, "a"), 10+t.Choose(80, "x")
	in := map[string]interface{}{"x": uint64(x)}
	hasA := t.Chance(3, 4, "mention-a")
	if hasA {
		in["a"] = uint64(a)
	}
	cfg, err := ucfg.NewFrom(in, opts...)
	if err != nil {
		panic("harness: inline pointer config: " + err.Error())
	}
	pre := t.Bool("pre-filled")
	r.Probe("unpack: inline field that is a pointer (nil or pre-filled)")
	if t.Bool("inline-pointer-to-map") {
		var target inlPtrMap
		if pre {
			m := map[string]interface{}{"z": "old"}
			target.M = &m
		}
		r.Tracef("config %v into inlPtrMap (inline *map, pre-filled=%v)", in, pre)
		r.MustComplete("Unpack", func() { err = cfg.Unpack(&target, opts...) })
		r.StateOps++
		if err != nil {
			e.fail("success", "Unpack", nil, "Unpack into a struct with an inline *map field (pre-filled=%v) failed: %v", pre, err)
			return
		}
		want := map[string]interface{}{"x": uint64(x)}
		if hasA {
			want["a"] = uint64(a)
		}
		if pre {
			want["z"] = "old"
		}
		if target.M == nil || model.CanonValue(*target.M) != model.CanonValue(want) || target.X != x {
			e.fail("result", "Unpack", nil, "Unpack into a struct with an inline *map field: got %v / x=%d, want %v / x=%d", target.M, target.X, want, x)
		}
		return
	}
	var target inlPtrStruct
	if pre {
		target.Base = &InlBase{A: 5, B: "old"}
	}
	r.Tracef("config %v into inlPtrStruct (inline *struct, pre-filled=%v)", in, pre)
	r.MustComplete("Unpack", func() { err = cfg.Unpack(&target, opts...) })
	r.StateOps++
	if err != nil {
		e.fail("success", "Unpack", nil, "Unpack into a struct with an inline *struct field (pre-filled=%v) failed: %v", pre, err)
		return
	}
	want := InlBase{}
	if pre {
		want = InlBase{A: 5, B: "old"}
	}
	if hasA {
		want.A = a
	}
	if target.Base == nil || *target.Base != want || target.X != x {
		e.fail("result", "Unpack", nil, "Unpack into a struct with an inline *struct field: got %+v / x=%d, want %+v / x=%d", target.Base, target.X, want, x)
	}
}
