package unpack

import (
	"fmt"

	ucfg "github.com/elastic/go-ucfg"

	"harness/sim"
)

// TopU is a hand-written top-level target that fills itself: it has an Unpack method taking the
// config (so its fields are the method's business, not the library's) and a Validate method. The
// method writes before it can fail, as methods do.
type TopU struct {
	Host  string
	Port  int64
	calls int
}

// Unpack fills the target from the config, reporting to the simulator between its two writes.
func (t *TopU) Unpack(c *ucfg.Config) error {
	t.calls++
	if s, err := c.String("host", -1); err == nil {
		t.Host = s
	}
	if err := cb.hit("Unpack", "TopU", t.Host, true); err != nil {
		return err
	}
	if i, err := c.Int("port", -1); err == nil {
		t.Port = i
	}
	return nil
}

// Validate reports to the simulator.
func (t *TopU) Validate() error { return cb.hit("Validate", "TopU", t.Port, true) }

// topUnpackerCase: Config.Unpack into a struct that is itself an Unpacker. A call that fails -
// in the method after its first write, or in Validate after the method has returned - leaves the
// struct passed in as it was (C13); a call that succeeds leaves what the method wrote.
func topUnpackerCase(r *sim.R, prop string) {
	register()
	t := r.T
	e := &E{R: r, Prop: prop}
	in := map[string]interface{}{}
	host, port := "h"+itoa(1+t.Choose(9, "host")), int64(1+t.Choose(9000, "port"))
	hasHost, hasPort := t.Chance(3, 4, "mention-host"), t.Chance(3, 4, "mention-port")
	if hasHost {
		in["host"] = host
	}
	if hasPort {
		in["port"] = port
	}
	opts := []ucfg.Option{ucfg.PathSep(".")}
	pre := TopU{Host: "pre", Port: 7, calls: 3}
	r.Probe("unpack: top-level target type with its own Unpack method")
	r.Tracef("config %v into %+v (a type with Unpack(*Config) and Validate methods)", in, pre)
	for failAt := -1; failAt < 2; failAt++ {
		r.NextStep()
		cfg, err := ucfg.NewFrom(in, opts...)
		if err != nil {
			panic("harness: top-level unpacker config: " + err.Error())
		}
		target := pre
		cb = &Callbacks{FailAt: failAt}
		r.MustComplete("Unpack", func() { err = cfg.Unpack(&target, opts...) })
		r.Tracef("callback #%d fails: Unpack = %v; target %+v", failAt, err, target)
		r.StateOps++
		if failAt < 0 {
			if err != nil {
				e.fail("success", "Unpack", nil, "Unpack of a valid config into a target with its own Unpack method failed: %v", err)
				return
			}
			want := pre
			want.calls++
			if hasHost {
				want.Host = host
			}
			if hasPort {
				want.Port = port
			}
			if target != want {
				e.fail("result", "Unpack", nil, "Unpack into a target with its own Unpack method: got %+v, the method applied to the pre-filled value gives %+v", target, want)
			}
			if len(cb.Log) != 2 {
				e.fail("validators-run", "Unpack", nil, "Unpack into a target with Unpack and Validate methods made %d callbacks (%v), expected the Unpack method and then Validate", len(cb.Log), cb.Log)
			}
			continue
		}
		what := fmt.Sprintf("callback #%d %s fails", failAt, []string{"Unpack method (after its first write)", "Validate"}[failAt])
		if !cb.Fired {
			continue
		}
		r.Fault("callback returns an error: " + cb.FiredAt.Kind)
		if err == nil {
			e.fail("fault-fails", "Unpack", map[string]string{"what": what}, "a failing callback did not make Unpack fail (%s)", what)
			continue
		}
		if target != pre {
			e.fail("unchanged", "Unpack", map[string]string{"what": what}, "Unpack failed (%s) but changed the struct passed in: %+v, was %+v", what, target, pre)
		}
	}
	cb = &Callbacks{FailAt: -1}
}

// topArrayCase: Config.Unpack into a fixed-size array (not inside a struct). The statement of
// C13 speaks of the struct passed in; an array passed in is a value of the caller's just the
// same, and a call that fails at a later element must leave the earlier ones as they were.
func topArrayCase(r *sim.R, prop string) {
	t := r.T
	e := &E{R: r, Prop: prop}
	opts := []ucfg.Option{ucfg.PathSep(".")}
	bad := t.Choose(4, "bad-element") // 3 = none
	in := []interface{}{uint64(10), uint64(20), uint64(30)}
	if bad < 3 {
		in[bad] = "zz"
	}
	cfg, err := ucfg.NewFrom(in, opts...)
	if err != nil {
		panic("harness: top-level array config: " + err.Error())
	}
	pre := [3]int{1, 2, 3}
	target := pre
	r.Probe("unpack: top-level fixed-size array target")
	r.Tracef("config %v into %v (a [3]int passed by pointer)", in, pre)
	r.MustComplete("Unpack", func() { err = cfg.Unpack(&target, opts...) })
	r.StateOps++
	if bad == 3 {
		if err != nil {
			e.fail("success", "Unpack", nil, "Unpack of a valid list into a [3]int failed: %v", err)
		} else if target != [3]int{10, 20, 30} {
			e.fail("result", "Unpack", nil, "Unpack of [10 20 30] into a [3]int gave %v", target)
		}
		return
	}
	what := "wrong type inside a list at " + itoa(bad)
	r.Fault("corrupted setting: wrong type inside a list")
	if err == nil {
		e.fail("fault-fails", "Unpack", map[string]string{"what": what}, "Unpack accepted a corrupted setting: %s; result %v", what, target)
		return
	}
	e.checkError(err, "Unpack", []string{itoa(bad)}, false, what)
	if target != pre {
		e.fail("unchanged", "Unpack", map[string]string{"what": what}, "Unpack failed (%s) but changed the array passed in: %v, was %v", what, target, pre)
	}
}
