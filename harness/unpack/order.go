package unpack

import (
	"fmt"
	"reflect"
	"sort"
	"strings"

	ucfg "github.com/elastic/go-ucfg"

	"harness/sim"
)

// render gives a canonical text of a value: pointers by pointee, maps sorted.
func render(v reflect.Value) string {
	if !v.IsValid() {
		return "<invalid>"
	}
	switch v.Kind() {
	case reflect.Ptr:
		if v.IsNil() {
			return "nil"
		}
		if v.Type() == tCfg {
			return "cfg" + canonCfg((*ucfg.Config)(v.UnsafePointer()))
		}
		return "&" + render(v.Elem())
	case reflect.Interface:
		if v.IsNil() {
			return "nil"
		}
		return render(v.Elem())
	case reflect.Struct:
		var s []string
		for i := 0; i < v.NumField(); i++ {
			s = append(s, v.Type().Field(i).Name+":"+render(v.Field(i)))
		}
		return "{" + strings.Join(s, " ") + "}"
	case reflect.Slice, reflect.Array:
		var s []string
		for i := 0; i < v.Len(); i++ {
			s = append(s, render(v.Index(i)))
		}
		return "[" + strings.Join(s, " ") + "]"
	case reflect.Map:
		keys := v.MapKeys()
		sort.Slice(keys, func(i, j int) bool { return fmt.Sprint(keys[i]) < fmt.Sprint(keys[j]) })
		var s []string
		for _, k := range keys {
			s = append(s, fmt.Sprint(k)+":"+render(v.MapIndex(k)))
		}
		return "map[" + strings.Join(s, " ") + "]"
	}
	return fmt.Sprint(v)
}

// OrderCase is E4's family of typed Unpack cases: the same (config, target
// type, pre-fill) unpacked under several enumeration schedules, fault-free or
// with exactly one corrupted setting.
func OrderCase(r *sim.R, run func(op string, detail map[string]string, kindsComparable bool, f func() (kind, data string, shape uint64)), errKind func(error) string) {
	register()
	e := &E{R: r, Prop: r.Prop, G: &gen{r: r}}
	e.S = e.G.genStruct(0)
	e.C = e.G.genCase(e.S, "", 0)
	e.C.bind()
	e.In = e.C.input()
	e.Opts = []ucfg.Option{ucfg.PathSep(".")}
	in := e.In
	what := "fault-free"
	if r.T.Chance(1, 3, "one-data-fault") {
		var all []dataFault
		e.C.walk(true, func(fc *FieldCase, mentioned bool) {
			if mentioned && fc.F.Kind != KInline {
				all = append(all, faultsFor(fc)...)
			}
		})
		if len(all) > 0 {
			df := all[r.T.Choose(len(all), "which-fault")]
			if m, ok := mutate(e.In, df.path, df.value, df.remove); ok {
				in = m
				what = df.kind + " at " + df.path
				r.Fault("one corrupted setting under several schedules")
			}
		}
	}
	r.Tracef("type %s", describeType(e.S, ""))
	r.Tracef("config %v (%s)", in, what)
	// Which of several independently failing settings the error reports may depend on the order
	// (C09 demands the same kind of error for one cause): kinds are compared only when the case
	// has at most one cause of failure - one corrupted setting, or one value breaking a built-in
	// validator of its field.
	want := reflect.New(e.S.Type).Elem()
	e.C.expect(want, true)
	bad := boundViolations(e.C, want, true)
	hasBound := false
	e.C.walk(true, func(fc *FieldCase, _ bool) {
		if fc.F.Bound != "" {
			hasBound = true
		}
	})
	oneCause := !(len(bad) > 1 || (what != "fault-free" && hasBound))
	run("Unpack(typed)", map[string]string{"overlap": "false", "absorbed_cycle": "false", "alt_absorbed_cycle": "false"}, oneCause, func() (string, string, uint64) {
		save := r.Order
		r.Order = sim.OrderSorted
		cfg, err := ucfg.NewFrom(in, e.Opts...)
		r.Order = save
		if err != nil {
			return "create: " + errKind(err), "", 0
		}
		t := e.newTarget()
		cb = &Callbacks{FailAt: -1}
		if err := cfg.Unpack(t.Interface(), e.Opts...); err != nil {
			return errKind(err), "", 0
		}
		return "ok", render(t.Elem()), 0
	})
	r.StateOps += 2
}
