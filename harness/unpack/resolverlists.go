package unpack

import (
	"fmt"
	"strings"

	ucfg "github.com/elastic/go-ucfg"
	"github.com/elastic/go-ucfg/parse"

	"harness/sim"
)

// Two settings whose references a resolver answers with the same text, a list or an object: each
// setting is a list / an object of its own, and a failure at an entry below the later one names
// the later one (C14) - whatever the call did with the text before.
type rlLists struct {
	Names []string `config:"names"`
	Ports []int    `config:"ports"`
}

type rlObjA struct {
	Port string `config:"port"`
	Host string `config:"host"`
}

type rlObjB struct {
	Port int    `config:"port"`
	Host string `config:"host"`
}

type rlObjs struct {
	First  rlObjA `config:"first"`
	Second rlObjB `config:"second"`
}

func resolverListCase(r *sim.R, prop string) {
	t := r.T
	e := &E{R: r, Prop: prop}
	r.Probe("unpack: two settings a resolver answers with the same list / object text")
	asObj := t.Bool("resolver-answers-with-an-object")
	sameName := t.Bool("both-settings-use-one-name")
	n1, n2 := "la", "lb"
	if sameName {
		n2 = n1
	}
	src := "f" + fmt.Sprint(1+t.Choose(3, "source")) + ".yml"
	opts := []ucfg.Option{ucfg.PathSep("."), ucfg.VarExp, ucfg.MetaData(ucfg.Meta{Source: src})}
	var text, want string
	var in map[string]interface{}
	bad := 0
	if asObj {
		text = "{port: zz, host: h}"
		in = map[string]interface{}{"first": "${" + n1 + "}", "second": "${" + n2 + "}"}
		want = "second.port"
	} else {
		k := 2 + t.Choose(2, "entries")
		bad = t.Choose(k, "bad-entry")
		parts := make([]string, k)
		for i := range parts {
			parts[i] = fmt.Sprint(10 + i)
		}
		parts[bad] = "zz"
		text = strings.Join(parts, ",")
		in = map[string]interface{}{"names": "${" + n1 + "}", "ports": "${" + n2 + "}"}
		want = fmt.Sprintf("ports.%d", bad)
	}
	res := ucfg.Resolve(func(name string) (string, parse.Config, error) {
		if name == n1 || name == n2 {
			return text, parse.DefaultConfig, nil
		}
		return "", parse.DefaultConfig, ucfg.ErrMissing
	})
	cfg, err := ucfg.NewFrom(in, opts...)
	if err != nil {
		panic("harness: resolver list config: " + err.Error())
	}
	uopts := append(append([]ucfg.Option{}, opts...), res)
	if asObj {
		var to rlObjs
		r.MustComplete("Unpack", func() { err = cfg.Unpack(&to, uopts...) })
	} else {
		var to rlLists
		r.MustComplete("Unpack", func() { err = cfg.Unpack(&to, uopts...) })
	}
	r.StateOps++
	r.Tracef("config %v, resolver answers %q for %s / %s: %v", in, text, n1, n2, err)
	r.Fault("unparsable entry of a list / object a resolver answered with")
	if err == nil {
		e.fail("fault-fails", "Unpack", nil, "Unpack succeeded although entry %q of the resolver's answer cannot become a number (%s)", "zz", want)
		return
	}
	if _, ok := err.(ucfg.Error); !ok {
		e.fail("error-typed", "Unpack", nil, "Unpack failed with an error that is no ucfg.Error: %v", err)
		return
	}
	if !containsPath(err.Error(), "'"+want+"'") {
		e.fail("error-names", "Unpack", nil, "Unpack failed (unparsable entry of the answer of a resolver, below %s); the error does not name the setting at fault (%s): %v", strings.SplitN(want, ".", 2)[0], want, err)
	}
}
