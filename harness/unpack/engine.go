package unpack

import (
	"fmt"
	"reflect"
	"regexp"
	"sort"
	"strconv"
	"strings"
	"time"

	ucfg "github.com/elastic/go-ucfg"

	"harness/sim"
)

// E is one E3 case.
type E struct {
	R      *sim.R
	Prop   string
	G      *gen
	S      *Struct
	C      *StructCase
	In     map[string]interface{}
	Opts   []ucfg.Option
	Source string
	Hist   int // how the config is produced: 0 direct, 1 decoy removed from list fronts, 2 attached as a child
}

var owners = map[string][]string{
	"success":         {"C13", "C04", "C14"},
	"result":          {"C13"},
	"validators-run":  {"C04"},
	"validators-hold": {"C04"},
	"fault-fails":     {"C04", "C13", "C14"},
	"error-typed":     {"C14"},
	"error-names":     {"C14", "C04"},
	"error-source":    {"C14"},
	"unchanged":       {"C13"},
}

func (e *E) fail(oracle, op string, detail map[string]string, format string, a ...interface{}) {
	for _, p := range owners[oracle] {
		if p == e.Prop {
			e.R.FailD(oracle, op, detail, format, a...)
		}
	}
	e.R.Note(owners[oracle][0], oracle+"/"+op)
}

// mkConfig builds the config for an input, possibly through a short history
// so that error paths depend on positional metadata having survived it.
func (e *E) mkConfig(in map[string]interface{}) *ucfg.Config {
	opts := e.Opts
	var c *ucfg.Config
	var err error
	switch e.Hist {
	case 1:
		// every top-level list gets a decoy element in front, which is then removed
		in2 := map[string]interface{}{}
		var lists []string
		for k, v := range in {
			if l, ok := v.([]interface{}); ok && len(l) > 0 {
				in2[k] = append([]interface{}{"decoy"}, l...)
				lists = append(lists, k)
			} else {
				in2[k] = v
			}
		}
		sort.Strings(lists)
		e.R.MustComplete("NewFrom", func() { c, err = ucfg.NewFrom(in2, opts...) })
		if err == nil {
			for _, k := range lists {
				e.R.MustComplete("Remove", func() { _, err = c.Remove(k, 0, opts...) })
				e.R.Probe("unpack: config produced by a history that moved list elements")
			}
		}
	case 2:
		// the settings live in a child config attached to a root that is then unwrapped
		var inner *ucfg.Config
		e.R.MustComplete("NewFrom", func() { inner, err = ucfg.NewFrom(in, opts...) })
		if err == nil {
			root := ucfg.New()
			e.R.MustComplete("SetChild", func() { err = root.SetChild("w", -1, inner, opts...) })
			if err == nil {
				root2 := ucfg.New()
				e.R.MustComplete("Merge", func() { err = root2.Merge(inner, opts...) })
				c = root2
			}
		}
	case 3:
		// top-level lists with >= 2 elements are assembled by a prepend merge: tail first, head merged in front
		base := map[string]interface{}{}
		head := map[string]interface{}{}
		for k, v := range in {
			if l, ok := v.([]interface{}); ok && len(l) >= 2 {
				base[k] = l[1:]
				head[k] = l[:1]
			} else {
				base[k] = v
			}
		}
		e.R.MustComplete("NewFrom", func() { c, err = ucfg.NewFrom(base, opts...) })
		if err == nil && len(head) > 0 {
			popts := append(append([]ucfg.Option{}, opts...), ucfg.PrependValues)
			e.R.MustComplete("Merge", func() { err = c.Merge(head, popts...) })
			e.R.Probe("unpack: config produced by a history that moved list elements")
		}
	default:
		e.R.MustComplete("NewFrom", func() { c, err = ucfg.NewFrom(in, opts...) })
	}
	if err != nil {
		e.fail("success", "NewFrom", nil, "building the config failed: %v", err)
		return nil
	}
	return c
}

func (e *E) newTarget() reflect.Value {
	p := reflect.New(e.S.Type)
	e.C.prefill(p.Elem())
	return p
}

// snapshot records what a failed Unpack must leave alone: values of the
// struct's own fields, identity of pointers, maps and slices.
type snapshot struct {
	copy reflect.Value // deep copy of values
	ids  map[string]uintptr
}

func deepCopy(v reflect.Value) reflect.Value {
	switch v.Kind() {
	case reflect.Struct:
		c := reflect.New(v.Type()).Elem()
		c.Set(v) // copies unexported fields too
		for i := 0; i < v.NumField(); i++ {
			if c.Field(i).CanSet() {
				c.Field(i).Set(deepCopy(v.Field(i)))
			}
		}
		return c
	case reflect.Slice:
		if v.IsNil() {
			return v
		}
		c := reflect.MakeSlice(v.Type(), v.Len(), v.Len())
		for i := 0; i < v.Len(); i++ {
			c.Index(i).Set(deepCopy(v.Index(i)))
		}
		return c
	}
	return v
}

func identities(path string, v reflect.Value, out map[string]uintptr) {
	switch v.Kind() {
	case reflect.Struct:
		for i := 0; i < v.NumField(); i++ {
			identities(path+"."+v.Type().Field(i).Name, v.Field(i), out)
		}
	case reflect.Ptr, reflect.Map:
		if !v.IsNil() {
			out[path] = v.Pointer()
		} else {
			out[path] = 0
		}
	case reflect.Slice:
		if !v.IsNil() && v.Len() > 0 {
			out[path] = v.Pointer()
		} else {
			out[path] = 0
		}
	}
}

func takeSnapshot(t reflect.Value) snapshot {
	s := snapshot{copy: deepCopy(t.Elem()), ids: map[string]uintptr{}}
	identities("", t.Elem(), s.ids)
	return s
}

// unchanged compares the struct with its snapshot: nested struct values
// deeply, pointers, maps and slices by identity (the exemption C13 grants:
// contents of maps and pointed-to objects may differ).
func unchanged(path string, now, then reflect.Value) string {
	switch now.Kind() {
	case reflect.Struct:
		for i := 0; i < now.NumField(); i++ {
			if d := unchanged(path+"."+now.Type().Field(i).Name, now.Field(i), then.Field(i)); d != "" {
				return d
			}
		}
		return ""
	case reflect.Ptr, reflect.Map:
		return "" // identity is compared separately
	case reflect.Slice:
		if now.Len() != then.Len() {
			return fmt.Sprintf("%s: slice length %d, was %d", path, now.Len(), then.Len())
		}
		for i := 0; i < now.Len(); i++ {
			if d := unchanged(path+"["+itoa(i)+"]", now.Index(i), then.Index(i)); d != "" {
				return d
			}
		}
		return ""
	case reflect.Interface:
		if now.IsNil() != then.IsNil() {
			return fmt.Sprintf("%s: interface value changed", path)
		}
		return ""
	}
	return diffValues(path, now, then)
}

func (e *E) checkUnchanged(t reflect.Value, s snapshot, op, what string) {
	if d := unchanged("", t.Elem(), s.copy); d != "" {
		e.fail("unchanged", op, map[string]string{"what": what}, "Unpack failed (%s) but changed the struct passed in: %s", what, d)
	}
	now := map[string]uintptr{}
	identities("", t.Elem(), now)
	keys := make([]string, 0, len(now))
	for k := range now {
		keys = append(keys, k)
	}
	sort.Strings(keys)
	for _, k := range keys {
		if now[k] != s.ids[k] {
			e.fail("unchanged", op, map[string]string{"what": what}, "Unpack failed (%s) but replaced the pointer / map / slice in field %s of the struct passed in", what, k)
		}
	}
}

// walk visits every field case with its path, including elements.
func (sc *StructCase) walk(present bool, fn func(fc *FieldCase, mentioned bool)) {
	for _, fc := range sc.Fields {
		m := present && fc.Mention
		fn(fc, m)
		switch fc.F.Kind {
		case KInline:
			fc.Sub.walk(present, fn)
		case KStruct:
			fc.Sub.walk(m, fn)
		case KPStruct:
			if m || fc.Pre {
				fc.Sub.walk(m, fn)
			}
		case KSStruct, KMStruct:
			if m {
				for _, el := range fc.Elems {
					el.walk(true, fn)
				}
			}
		case KAStruct:
			for _, el := range fc.Elems {
				el.walk(m, fn)
			}
		}
	}
}

var tokenRe = map[string]*regexp.Regexp{}

func namesPath(msg, path string) bool {
	re, ok := tokenRe[path]
	if !ok {
		re = regexp.MustCompile(`(^|[^A-Za-z0-9_.])` + regexp.QuoteMeta(path) + `($|[^A-Za-z0-9_.])`)
		tokenRe[path] = re
	}
	return re.MatchString(msg)
}

// checkError applies C14 to the error of a faulted Unpack.
func (e *E) checkError(err error, op string, paths []string, lenient bool, what string) {
	ue, ok := err.(ucfg.Error)
	if !ok {
		e.fail("error-typed", op, map[string]string{"what": what}, "Unpack failed (%s) with an error that is not a ucfg.Error: %T %v", what, err, err)
		return
	}
	if ue.Reason() == nil || ue.Class() == nil {
		e.fail("error-typed", op, map[string]string{"what": what}, "Unpack failed (%s) with a ucfg.Error without Reason or Class: %v", what, err)
	}
	msg := err.Error()
	if i := strings.Index(msg, "\nTrace:"); i >= 0 {
		msg = msg[:i]
	}
	named := false
	for _, p := range paths {
		if p == "" {
			continue
		}
		if namesPath(msg, p) {
			named = true
		}
		if lenient {
			// a value that did not come from the configuration: the enclosing setting may be named
			for q := p; strings.Contains(q, "."); {
				q = q[:strings.LastIndex(q, ".")]
				if namesPath(msg, q) {
					named = true
				}
			}
		}
	}
	if !named && len(paths) > 0 {
		e.fail("error-names", op, map[string]string{"what": what, "want": strings.Join(paths, "|"), "msg": msg}, "Unpack failed (%s); the error does not name the setting at fault (%s): %s", what, strings.Join(paths, " or "), msg)
	}
	if e.Source != "" && !lenient && len(paths) > 0 && !strings.Contains(msg, e.Source) {
		e.fail("error-source", op, map[string]string{"what": what, "msg": msg}, "Unpack failed (%s); the error does not mention the source %q the value was loaded from: %s", what, e.Source, msg)
	}
}

// Run executes one E3 case with all of its fault points.
func Run(r *sim.R, prop string) {
	register()
	t := r.T
	e := &E{R: r, Prop: prop, G: &gen{r: r}}
	r.Order = t.Weighted([]int{3, 2, 1}, "order-policy")
	if t.Chance(1, 24, "top-level-unpacker") {
		topUnpackerCase(r, prop)
		return
	}
	if t.Chance(1, 48, "top-level-array") {
		topArrayCase(r, prop)
		return
	}
	if t.Chance(1, 24, "evaluation-fault-below-generic-target") {
		ifaceFaultCase(r, prop)
		return
	}
	if t.Chance(1, 48, "inline-pointer-field") {
		inlinePtrCase(r, prop)
		return
	}
	if t.Chance(1, 24, "inline-field-with-policy") {
		inlinePolicyCase(r, prop)
		return
	}
	if prop == "C13" && t.Chance(1, 32, "bare-primitive-for-a-slice-field") {
		primitiveAsListCase(r, prop)
		return
	}
	if prop == "C14" && t.Chance(1, 32, "resolver-answers-two-settings-with-one-text") {
		resolverListCase(r, prop)
		return
	}
	if prop == "C04" && t.Chance(1, 24, "validators-of-inline-fields-and-small-buffers") {
		inlineValidatorCase(r, prop)
		return
	}
	e.G.varexp = t.Chance(1, 3, "with-varexp")
	e.G.custom = t.Chance(1, 6, "custom-tag-names")
	if !e.G.custom && t.Chance(1, 6, "named-top-level") {
		e.S = topVStruct()
		r.Probe("unpack: top-level target type with its own Validate method")
	} else {
		e.S = e.G.genStruct(0)
	}
	e.C = e.G.genCase(e.S, "", 0)
	e.C.bind()
	e.In = e.C.input()
	e.C.refs(e.In)
	e.Opts = []ucfg.Option{ucfg.PathSep(".")}
	if e.G.varexp {
		e.Opts = append(e.Opts, ucfg.VarExp)
	}
	if e.G.custom {
		e.Opts = append(e.Opts, ucfg.StructTag("cfg"), ucfg.ValidatorTag("check"))
		r.Probe("unpack: custom struct tag names (StructTag, ValidatorTag)")
	}
	if t.Chance(1, 3, "with-meta") {
		e.Source = "file" + itoa(e.G.next()) + ".yml"
		e.Opts = append(e.Opts, ucfg.MetaData(ucfg.Meta{Source: e.Source}))
	}
	e.Hist = t.Weighted([]int{3, 1, 1, 1}, "config-history")
	r.Tracef("type %s", describeType(e.S, ""))
	r.Tracef("config %v (history %d, source %q)", e.In, e.Hist, e.Source)

	// ---- fault-free run
	cfg := e.mkConfig(e.In)
	if cfg == nil {
		return
	}
	if e.G.custom {
		// the same type was seen under the standard tag names before (nothing read then may stick)
		t0 := e.newTarget()
		cb = &Callbacks{FailAt: -1}
		r.MustComplete("Unpack", func() { cfg.Unpack(t0.Interface(), ucfg.PathSep(".")) })
	}
	target := e.newTarget()
	snap0 := takeSnapshot(target)
	pre := fmt.Sprintf("%+v", target.Elem())
	cb = &Callbacks{FailAt: -1}
	var err error
	r.MustComplete("Unpack", func() { err = cfg.Unpack(target.Interface(), e.Opts...) })
	log := cb.Log
	r.Tracef("pre-filled %s", pre)
	r.Tracef("Unpack = %v; result %+v; %d callbacks", err, target.Elem(), len(log))
	r.StateOps += 2
	want := reflect.New(e.S.Type).Elem()
	e.C.expect(want, true)
	// ---- values that break a built-in validator of their field's tag (C04): the result the
	// call would have to produce is known, so is whether it may be produced at all
	if bad := boundViolations(e.C, want, true); len(bad) > 0 {
		var paths []string
		lenient := false
		var descr []string
		for _, b := range bad {
			paths = append(paths, b.fc.Path)
			if !b.mentioned {
				lenient = true
			}
			descr = append(descr, fmt.Sprintf("%s = %s breaks %s (%s)", b.fc.Path, b.val, b.fc.F.Bound, b.source()))
			r.Fault("value breaks a built-in validator: " + b.source())
			if b.viaPtr {
				r.Probe("unpack: invalid value behind a pointer")
			}
		}
		what := strings.Join(descr, "; ")
		r.Tracef("fault: %s -> %v", what, err)
		if err == nil {
			e.fail("validators-hold", "Unpack", map[string]string{"what": what, "source": bad[0].source(), "bound": bad[0].fc.F.Bound, "kind": bad[0].fc.F.Kind.String()},
				"Unpack succeeded although the result breaks a validator of a field's tag: %s\n  result %+v", what, target.Elem())
			return
		}
		e.checkError(err, "Unpack", paths, lenient, what)
		e.checkUnchanged(target, snap0, "Unpack", what)
		return
	}
	if err != nil {
		e.fail("success", "Unpack", nil, "Unpack of a valid config into a valid target failed: %v", err)
		return
	}
	if d := diffValues("", target.Elem(), want); d != "" {
		e.fail("result", "Unpack", map[string]string{"diff": d}, "Unpack did not produce 'pre-filled value overwritten at exactly the mentioned fields': %s\n  got  %+v\n  want %+v", d, target.Elem(), want)
	}
	e.checkTraversal(target.Elem(), log)

	// ---- every callback invocation as a fault point
	for k, h := range log {
		if h.Kind == "InitDefaults" {
			continue
		}
		r.NextStep()
		cfgk := e.mkConfig(e.In)
		tk := e.newTarget()
		snap := takeSnapshot(tk)
		cb = &Callbacks{FailAt: k}
		var errk error
		r.MustComplete("Unpack", func() { errk = cfgk.Unpack(tk.Interface(), e.Opts...) })
		what := fmt.Sprintf("callback #%d %s %s(%v) returns an error", k, h.Kind, h.ID, h.Value)
		r.Tracef("fault: %s -> %v", what, errk)
		if !cb.Fired {
			continue // the invocation sequence is shorter this time (e.g. another map order): not a fault point of this run
		}
		// the k-th invocation of THIS run (map order may have changed which one that is)
		h = cb.FiredAt
		what = fmt.Sprintf("callback #%d %s %s(%v) returns an error", k, h.Kind, h.ID, h.Value)
		r.Fault("callback returns an error: " + h.Kind)
		if k > 0 {
			r.Probe("unpack: failed after earlier callbacks had succeeded")
		}
		if errk == nil {
			e.fail("fault-fails", "Unpack", map[string]string{"what": what}, "a failing %s callback did not make Unpack fail (%s)", h.Kind, what)
			continue
		}
		paths, lenient := e.pathsOfHit(h)
		e.checkError(errk, "Unpack", paths, lenient, what)
		e.checkUnchanged(tk, snap, "Unpack", what)
	}
	cb = &Callbacks{FailAt: -1}

	// ---- data faults at every consumed leaf
	e.dataFaults()
}

// pathsOfHit: which settings can a callback invocation belong to.
func (e *E) pathsOfHit(h Hit) ([]string, bool) {
	var paths []string
	lenient := false
	val := fmt.Sprint(h.Value)
	e.C.walk(true, func(fc *FieldCase, mentioned bool) {
		match := false
		switch h.Kind {
		case "simcheck":
			match = fc.F.ID == h.ID
		case "Validate":
			switch h.ID {
			case "VInt":
				match = fc.F.Kind == KVInt || fc.F.Kind == KSVInt || fc.F.Kind == KMVInt || fc.F.Kind == KInner || fc.F.Kind == KPInner || fc.F.Kind == KSSVInt || fc.F.Kind == KMSVInt || fc.F.Kind == KIfPInner
			case "PI":
				match = fc.F.Kind == KPI
			case "VStr":
				match = fc.F.Kind == KVStr
			case "UVal":
				match = fc.F.Kind == KUVal
			case "Inner":
				match = fc.F.Kind == KInner || fc.F.Kind == KPInner || fc.F.Kind == KIfPInner
			case "TopV":
				match = false
			}
		case "Unpack":
			match = fc.F.Kind.String() == h.ID || fc.F.Kind.String() == "[]"+h.ID || fc.F.Kind.String() == "*"+h.ID || fc.F.Kind.String() == "map[string]"+h.ID
		}
		if !match {
			return
		}
		if !mentioned {
			lenient = true
		}
		paths = append(paths, fc.Path)
		switch fc.F.Kind {
		case KMA2:
			for _, k := range []string{".p", ".q", ".z"} {
				paths = append(paths, fc.Path+k, fc.Path+k+".0", fc.Path+k+".1")
			}
		case KSVInt, KSInt, KSStr, KA2, KPA2, KIA2, KPSInt, KSUStr, KSUCfg, KSMap:
			// the field's validators are also applied to each element, which is then named
			for i := 0; i < 6; i++ {
				paths = append(paths, fc.Path+"."+itoa(i))
			}
		case KMInt, KMIface, KMVInt, KMUCfg, KPMInt:
			paths = append(paths, fc.Path+".p", fc.Path+".q", fc.Path+".z")
		case KSSVInt:
			for i := 0; i < 3; i++ {
				paths = append(paths, fc.Path+"."+itoa(i))
				for j := 0; j < 4; j++ {
					paths = append(paths, fc.Path+"."+itoa(i)+"."+itoa(j))
				}
			}
		case KMSlice, KMSVInt:
			for _, k := range []string{"p", "q", "z"} {
				paths = append(paths, fc.Path+"."+k)
				for i := 0; i < 4; i++ {
					paths = append(paths, fc.Path+"."+k+"."+itoa(i))
				}
			}
		}
		if fc.F.Kind == KInner || fc.F.Kind == KPInner || fc.F.Kind == KIfPInner {
			paths = append(paths, fc.Path+".x", fc.Path+".y")
		}
		if fc.F.Kind == KURe {
			paths = append(paths, fc.Path+".p", fc.Path+".q")
		}
		if fc.Ref {
			// the value lives in the setting the reference points to: an element of a referenced
			// list may be named there
			for _, rn := range []string{fc.refName(), "zz" + fc.refName()} {
				paths = append(paths, rn)
				for i := 0; i < 6; i++ {
					paths = append(paths, rn+"."+itoa(i))
				}
			}
		}
		_ = val
	})
	if h.Kind == "simcheck" && strings.HasPrefix(h.ID, "Inner.") {
		e.C.walk(true, func(fc *FieldCase, mentioned bool) {
			if fc.F.Kind == KInner || fc.F.Kind == KPInner || fc.F.Kind == KIfPInner {
				paths = append(paths, fc.Path+"."+strings.TrimPrefix(h.ID, "Inner."), fc.Path)
				if !mentioned {
					lenient = true
				}
			}
		})
	}
	if h.Kind == "simcheck" && strings.HasPrefix(h.ID, "DInt.") {
		e.C.walk(true, func(fc *FieldCase, mentioned bool) {
			if fc.F.Kind == KDInt {
				paths = append(paths, fc.Path+"."+strings.TrimPrefix(h.ID, "DInt."), fc.Path)
				lenient = true
			}
		})
	}
	return paths, lenient
}

// checkTraversal is C04's "no validator is skipped on any traversal path":
// every reachable field whose kind a built-in validator can reject must have
// had its simcheck run on its final value, and every reachable value with a
// Validate method must have had it called.
func (e *E) checkTraversal(result reflect.Value, log []Hit) {
	seenCheck := map[string][]string{}
	seenValidate := map[string]map[string]bool{"VInt": {}, "VStr": {}, "Inner": {}, "TopV": {}, "PI": {}, "UVal": {}}
	for _, h := range log {
		switch h.Kind {
		case "simcheck":
			seenCheck[h.ID] = append(seenCheck[h.ID], canonHitValue(h.Value))
		case "Validate":
			seenValidate[h.ID][fmt.Sprint(h.Value)] = true
		}
	}
	var walk func(sc *StructCase, v reflect.Value)
	walk = func(sc *StructCase, v reflect.Value) {
		for i, fc := range sc.Fields {
			f := v.Field(i)
			switch fc.F.Kind {
			case KInline, KStruct:
				walk(fc.Sub, f)
				continue
			case KPStruct:
				if !f.IsNil() {
					walk(fc.Sub, f.Elem())
				}
				continue
			case KSStruct, KAStruct:
				for j := 0; j < f.Len() && j < len(fc.Elems); j++ {
					walk(fc.Elems[j], f.Index(j))
				}
			case KMStruct:
				for j, k := range fc.Keys {
					x := f.MapIndex(reflect.ValueOf(k))
					if x.IsValid() {
						walk(fc.Elems[j], x)
					}
				}
			}
			// Validate methods of leaf values
			switch fc.F.Kind {
			case KInner, KPInner, KIfPInner:
				// the hand-written struct with a Validate method of its own: by value, behind a pointer,
				// behind a pointer held by an interface
				in := f
				for in.Kind() == reflect.Ptr || in.Kind() == reflect.Interface {
					if in.IsNil() {
						break
					}
					in = in.Elem()
				}
				if in.Kind() == reflect.Struct {
					if y := in.FieldByName("Y").String(); !seenValidate["Inner"][y] {
						e.fail("validators-run", "Unpack", map[string]string{"field": fc.Path, "kind": fc.F.Kind.String()}, "Unpack succeeded but Validate() was never called on the final value (y = %q) of field %s (%s, pre-filled=%v, mentioned=%v)", y, fc.Path, fc.F.Kind, fc.Pre, fc.Mention)
					}
				}
			case KVInt:
				if !seenValidate["VInt"][fmt.Sprint(f.Int())] {
					e.fail("validators-run", "Unpack", map[string]string{"field": fc.Path, "kind": fc.F.Kind.String()}, "Unpack succeeded but Validate() was never called on the final value %d of field %s (%s)", f.Int(), fc.Path, fc.F.Kind)
				}
			case KVStr:
				if !seenValidate["VStr"][f.String()] {
					e.fail("validators-run", "Unpack", map[string]string{"field": fc.Path, "kind": fc.F.Kind.String()}, "Unpack succeeded but Validate() was never called on the final value %q of field %s (%s)", f.String(), fc.Path, fc.F.Kind)
				}
			case KUVal:
				if x := f.Field(0).Int(); (fc.Pre || fc.Mention) && !seenValidate["UVal"][fmt.Sprint(x)] {
					e.fail("validators-run", "Unpack", map[string]string{"field": fc.Path, "kind": fc.F.Kind.String()}, "Unpack succeeded but Validate() was never called on the final value %d of field %s (%s, pre-filled=%v, mentioned=%v)", x, fc.Path, fc.F.Kind, fc.Pre, fc.Mention)
				}
			case KPI:
				if !seenValidate["PI"][fmt.Sprint(f.Int())] {
					e.fail("validators-run", "Unpack", map[string]string{"field": fc.Path, "kind": fc.F.Kind.String()}, "Unpack succeeded but Validate() was never called on the final value %d of field %s (%s, pre-filled=%v, mentioned=%v)", f.Int(), fc.Path, fc.F.Kind, fc.Pre, fc.Mention)
				}
			case KMVInt:
				keys := f.MapKeys()
				sort.Slice(keys, func(a, b int) bool { return keys[a].String() < keys[b].String() })
				for _, k := range keys {
					if x := f.MapIndex(k).Int(); !seenValidate["VInt"][fmt.Sprint(x)] {
						e.fail("validators-run", "Unpack", map[string]string{"field": fc.Path, "kind": fc.F.Kind.String()}, "Unpack succeeded but Validate() was never called on entry %q (= %d) of field %s (%s, pre-filled=%v, mentioned=%v)", k.String(), x, fc.Path, fc.F.Kind, fc.Pre, fc.Mention)
					}
				}
			case KSSVInt:
				for j := 0; j < f.Len(); j++ {
					for k := 0; k < f.Index(j).Len(); k++ {
						if x := f.Index(j).Index(k).Int(); !seenValidate["VInt"][fmt.Sprint(x)] {
							e.fail("validators-run", "Unpack", map[string]string{"field": fc.Path, "kind": fc.F.Kind.String()}, "Unpack succeeded but Validate() was never called on element %d.%d (= %d) of field %s (%s, pre-filled=%v, mentioned=%v)", j, k, x, fc.Path, fc.F.Kind, fc.Pre, fc.Mention)
						}
					}
				}
			case KMSVInt:
				keys := f.MapKeys()
				sort.Slice(keys, func(a, b int) bool { return keys[a].String() < keys[b].String() })
				for _, k := range keys {
					l := f.MapIndex(k)
					for j := 0; j < l.Len(); j++ {
						if x := l.Index(j).Int(); !seenValidate["VInt"][fmt.Sprint(x)] {
							e.fail("validators-run", "Unpack", map[string]string{"field": fc.Path, "kind": fc.F.Kind.String()}, "Unpack succeeded but Validate() was never called on element %s.%d (= %d) of field %s (%s, pre-filled=%v, mentioned=%v)", k.String(), j, x, fc.Path, fc.F.Kind, fc.Pre, fc.Mention)
						}
					}
				}
			case KSVInt:
				for j := 0; j < f.Len(); j++ {
					if !seenValidate["VInt"][fmt.Sprint(f.Index(j).Int())] {
						e.fail("validators-run", "Unpack", map[string]string{"field": fc.Path, "kind": fc.F.Kind.String()}, "Unpack succeeded but Validate() was never called on element %d (= %d) of field %s (%s)", j, f.Index(j).Int(), fc.Path, fc.F.Kind)
					}
				}
			}
			// the tag validator of the field itself: kinds a built-in validator can reject
			if fc.F.Ignore {
				continue
			}
			switch fc.F.Kind {
			case KStruct, KPStruct, KInline, KInner, KPInner, KDInt, KUStr, KUInt, KUBool, KUFloat, KUAny, KUCfg, KCfg, KSStruct, KMStruct, KUUint, KAStruct, KPUStr, KMUCfg, KURefl, KUVal, KURe, KIfPInner:
				continue // struct-kind values: no built-in validator can reject them
			}
			want := canonHitValue(fieldValue(f))
			ok := false
			for _, s := range seenCheck[fc.F.ID] {
				if s == want {
					ok = true
				}
			}
			if !ok {
				e.fail("validators-run", "Unpack", map[string]string{"field": fc.Path, "kind": fc.F.Kind.String(), "pre": fmt.Sprint(fc.Pre), "mentioned": fmt.Sprint(fc.Mention)},
					"Unpack succeeded but the tag validator of field %s (%s, pre-filled=%v, mentioned=%v) never saw its final value %s (it saw %v)", fc.Path, fc.F.Kind, fc.Pre, fc.Mention, want, seenCheck[fc.F.ID])
			}
		}
	}
	walk(e.C, result)
	if tv, ok := result.Interface().(TopV); ok && !seenValidate["TopV"][fmt.Sprint(tv.A)] {
		e.fail("validators-run", "Unpack", map[string]string{"field": "", "kind": "TopV"}, "Unpack succeeded but Validate() of the target struct itself was never called on its final value")
	}
}

func fieldValue(f reflect.Value) interface{} {
	if f.CanInterface() {
		return f.Interface()
	}
	return fmt.Sprint(f)
}

func canonHitValue(v interface{}) string {
	switch x := v.(type) {
	case regexp.Regexp:
		return "regexp " + x.String()
	case *regexp.Regexp:
		if x != nil {
			return "regexp " + x.String()
		}
	}
	rv := reflect.ValueOf(v)
	for rv.IsValid() && rv.Kind() == reflect.Ptr && !rv.IsNil() {
		rv = rv.Elem()
	}
	if !rv.IsValid() {
		return "<nil>"
	}
	switch rv.Kind() {
	case reflect.Slice, reflect.Map:
		if rv.Len() == 0 {
			return "<empty>"
		}
	case reflect.Ptr, reflect.Interface:
		if rv.IsNil() {
			return "<nil>"
		}
	}
	return fmt.Sprintf("%v", rv)
}

// ---------------------------------------------------------------------------------------------
// Built-in validators: a value-level reference (what the tag says about the final value of the
// field, wherever that value came from and whether or not it sits behind a pointer).

type boundViolation struct {
	fc        *FieldCase
	val       string
	mentioned bool
	viaPtr    bool
}

func (b boundViolation) source() string {
	switch {
	case b.mentioned:
		return "from the configuration"
	case b.fc.F.Kind == KPI:
		return "from InitDefaults"
	}
	return "from a pre-filled default"
}

// breaks: does the final value f of a field break the built-in validator bound?
func breaks(bound string, f reflect.Value) (bool, string, bool) {
	viaPtr := false
	for f.Kind() == reflect.Ptr {
		if f.IsNil() {
			return false, "", false // nothing to validate ("required" is handled elsewhere)
		}
		f = f.Elem()
		viaPtr = true
	}
	name, param := bound, ""
	if i := strings.Index(bound, "="); i >= 0 {
		name, param = bound[:i], bound[i+1:]
	}
	if f.Type() == reflect.TypeOf(time.Duration(0)) {
		d := time.Duration(f.Int())
		// a bound is a duration literal, or a number of seconds
		lim, err := time.ParseDuration(param)
		if err != nil {
			secs, _ := strconv.ParseFloat(param, 64)
			lim = time.Duration(secs * float64(time.Second))
		}
		switch name {
		case "min":
			return d < lim, d.String(), viaPtr
		case "max":
			return d > lim, d.String(), viaPtr
		case "nonzero":
			return d == 0, d.String(), viaPtr
		case "positive":
			return d < 0, d.String(), viaPtr
		}
		return false, "", viaPtr
	}
	var x float64
	switch f.Kind() {
	case reflect.Int, reflect.Int8, reflect.Int16, reflect.Int32, reflect.Int64:
		x = float64(f.Int())
	case reflect.Uint, reflect.Uint8, reflect.Uint16, reflect.Uint32, reflect.Uint64:
		x = float64(f.Uint())
	case reflect.Float32, reflect.Float64:
		x = f.Float()
	case reflect.String:
		return name == "nonzero" && f.String() == "", strconv.Quote(f.String()), viaPtr
	case reflect.Map, reflect.Slice:
		return name == "nonzero" && !f.IsNil() && f.Len() == 0, "a " + f.Kind().String() + " without entries", viaPtr
	default:
		return false, "", viaPtr
	}
	s := fmt.Sprint(x)
	lim, _ := strconv.ParseFloat(param, 64)
	if f.Kind() == reflect.Float32 {
		lim = float64(float32(lim)) // a float32 is compared with what the bound is as a float32
	}
	switch name {
	case "min":
		return x < lim, s, viaPtr
	case "max":
		return x > lim, s, viaPtr
	case "nonzero":
		return x == 0, s, viaPtr
	case "positive":
		return x < 0, s, viaPtr
	}
	return false, "", viaPtr
}

// boundViolations lists the reachable fields of v whose value breaks their built-in validator.
func boundViolations(sc *StructCase, v reflect.Value, present bool) []boundViolation {
	var out []boundViolation
	for i, fc := range sc.Fields {
		f := v.Field(i)
		m := present && fc.Mention
		switch fc.F.Kind {
		case KInline:
			out = append(out, boundViolations(fc.Sub, f, present)...)
			continue
		case KStruct:
			out = append(out, boundViolations(fc.Sub, f, m)...)
			continue
		case KPStruct:
			if !f.IsNil() {
				out = append(out, boundViolations(fc.Sub, f.Elem(), m)...)
			}
			continue
		case KSStruct:
			for j := 0; j < f.Len() && j < len(fc.Elems); j++ {
				out = append(out, boundViolations(fc.Elems[j], f.Index(j), true)...)
			}
			continue
		case KAStruct:
			for j := 0; j < f.Len() && j < len(fc.Elems); j++ {
				out = append(out, boundViolations(fc.Elems[j], f.Index(j), m)...)
			}
			continue
		case KMStruct:
			for j, k := range fc.Keys {
				if x := f.MapIndex(reflect.ValueOf(k)); x.IsValid() {
					out = append(out, boundViolations(fc.Elems[j], x, true)...)
				}
			}
			continue
		}
		if fc.F.Bound == "" || fc.F.Ignore {
			continue // (an ignored field is not looked at, not even by the validators)
		}
		if bad, val, viaPtr := breaks(fc.F.Bound, f); bad {
			out = append(out, boundViolation{fc: fc, val: val, mentioned: m, viaPtr: viaPtr})
		}
	}
	return out
}
