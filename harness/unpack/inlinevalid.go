package unpack

import (
	"fmt"

	ucfg "github.com/elastic/go-ucfg"

	"harness/sim"
)

// Validators in the tag of an inline field (C04): the field opens no namespace, but its tag's
// validators hold for its value like those of any other field - whether the value came from the
// configuration or is a pre-filled default (finding O90).
type inlValMap struct {
	M map[string]int `config:",inline" validate:"nonzero"`
}

type inlValPMap struct {
	M *map[string]int `config:",inline" validate:"nonzero"`
}

type inlValReq struct {
	M map[string]int `config:",inline" validate:"required"`
}

type plainValMap struct {
	M map[string]int `config:"m" validate:"nonzero"`
}

// SBInner / SBSub: the small-buffer idiom - a slice field backed by an unexported array that is
// the first field of the struct, so the struct (reached through a pointer) and the slice start at
// the same address (finding O91).
type SBInner struct {
	N int `config:"n" validate:"min=1"`
}

type SBSub struct {
	buf   [3]SBInner
	Items []SBInner `config:"items"`
	Y     int       `config:"y"`
}

type sbTop struct {
	Sub *SBSub `config:"sub"`
	X   int    `config:"x"`
}

type sbTopVal struct {
	Sub SBSub `config:"sub"`
	X   int   `config:"x"`
}

func inlineValidatorCase(r *sim.R, prop string) {
	t := r.T
	e := &E{R: r, Prop: prop}
	opts := []ucfg.Option{ucfg.PathSep(".")}
	switch t.Choose(5, "validator-side-case") {
	case 4:
		keptEntriesCase(r, e, opts)
		return
	case 1:
		smallBufferCase(r, e, opts)
		return
	case 2:
		aliasedDefaultsCase(r, e, opts)
		return
	case 3:
		validatorTagCase(r, e, opts)
		return
	}
	// 0: no setting at all, 1..2: that many settings
	n := t.Choose(3, "inline-settings")
	in := map[string]interface{}{}
	for i := 0; i < n; i++ {
		in[string(rune('a'+i))] = uint64(1 + t.Choose(9, "inline-value"))
	}
	pre := t.Choose(3, "inline-pre-filled") // 0 nil, 1 empty, 2 one entry
	mk := func() map[string]int {
		switch pre {
		case 1:
			return map[string]int{}
		case 2:
			return map[string]int{"z": 7}
		}
		return nil
	}
	cfg, err := ucfg.NewFrom(in, opts...)
	if err != nil {
		panic("harness: inline validator config: " + err.Error())
	}
	// nonzero: a map that is there and has no entries (a nil map without a setting is absent, which
	// nonzero accepts like the reference of the built-in validators in engine.go); required (form
	// 2): the nil map without any setting - what "there" means for an empty non-nil map is left
	// to the library
	form := t.Choose(4, "inline-validator-form")
	empty := n == 0 && pre == 1
	if form == 2 {
		empty = n == 0 && pre == 0
	}
	valid := n > 0 || pre == 2
	var got interface{}
	r.Probe("unpack: inline map field with validators in its tag")
	if empty {
		r.Probe("unpack: inline map field with validators in its tag stays empty")
	}
	switch form {
	case 0:
		target := inlValMap{M: mk()}
		r.MustComplete("Unpack", func() { err = cfg.Unpack(&target, opts...) })
		got = target.M
	case 1:
		target := inlValPMap{}
		if pre != 0 {
			m := mk()
			target.M = &m
		}
		r.MustComplete("Unpack", func() { err = cfg.Unpack(&target, opts...) })
		if target.M != nil {
			got = *target.M
		}
	case 2:
		target := inlValReq{M: mk()}
		r.MustComplete("Unpack", func() { err = cfg.Unpack(&target, opts...) })
		got = target.M
	default:
		// control: the same field without inline (settings below m)
		target := plainValMap{M: mk()}
		var c2 *ucfg.Config
		if n > 0 {
			c2, err = ucfg.NewFrom(map[string]interface{}{"m": in}, opts...)
		} else {
			c2, err = ucfg.NewFrom(in, opts...)
		}
		if err != nil {
			panic("harness: inline validator config: " + err.Error())
		}
		r.MustComplete("Unpack", func() { err = c2.Unpack(&target, opts...) })
		got = target.M
	}
	r.StateOps++
	r.Tracef("config %v into form %d of a map field tagged nonzero/required (pre-filled=%d): %v / %v", in, form, pre, got, err)
	if empty && err == nil {
		e.fail("validators-hold", "Unpack", nil,
			"Unpack succeeded although the result breaks a validator of a field's tag: the map field (form %d: 0 inline nonzero, 1 inline *map nonzero, 2 inline required, 3 not inline) is empty (%v, pre-filled=%d, no setting)", form, got, pre)
	}
	if valid && err != nil {
		e.fail("success", "Unpack", nil, "Unpack of %v into a map field with a satisfied validator (form %d, pre-filled=%d) failed: %v", in, form, pre, err)
	}
}

func smallBufferCase(r *sim.R, e *E, opts []ucfg.Option) {
	t := r.T
	r.Probe("unpack: default slice backed by the first field of its own struct")
	k := 1 + t.Choose(3, "items")
	bad := -1
	mkSub := func() SBSub {
		var s SBSub
		for i := 0; i < k; i++ {
			s.buf[i].N = 1 + i
		}
		if bad >= 0 {
			s.buf[bad].N = 0
		}
		return s
	}
	if t.Chance(2, 3, "invalid-element") {
		bad = t.Choose(k, "invalid-at")
	}
	in := map[string]interface{}{}
	if t.Bool("mention-x") {
		in["x"] = uint64(3)
	}
	if t.Bool("mention-sub-y") {
		in["sub"] = map[string]interface{}{"y": uint64(4)}
	}
	cfg, err := ucfg.NewFrom(in, opts...)
	if err != nil {
		panic("harness: small buffer config: " + err.Error())
	}
	byPtr := t.Bool("behind-pointer")
	if byPtr {
		s := mkSub()
		s.Items = s.buf[:k]
		target := sbTop{Sub: &s}
		r.MustComplete("Unpack", func() { err = cfg.Unpack(&target, opts...) })
	} else {
		target := sbTopVal{Sub: mkSub()}
		target.Sub.Items = target.Sub.buf[:k]
		r.MustComplete("Unpack", func() { err = cfg.Unpack(&target, opts...) })
	}
	r.StateOps++
	r.Tracef("config %v into a struct (behind a pointer: %v) whose default items = buf[:%d], invalid element %d: %v", in, byPtr, k, bad, err)
	if bad >= 0 && err == nil {
		e.fail("validators-hold", "Unpack", nil,
			"Unpack succeeded although the result breaks a validator of a field's tag: sub.items.%d.n = 0 breaks min=1 (a default; items is a slice over the first field of sub, sub behind a pointer: %v)", bad, byPtr)
	}
	if bad < 0 && err != nil {
		e.fail("success", "Unpack", nil, "Unpack of %v over valid defaults (small-buffer slice) failed: %v", in, err)
	}
	if bad >= 0 && err != nil {
		// (the field holding the invalid default, or the element below it)
		want := "'sub"
		if !containsPath(err.Error(), want) {
			e.fail("error-names", "Unpack", nil, "Unpack failed (%v); the error does not name the setting at fault %s", err, want)
		}
	}
}

func containsPath(msg, path string) bool {
	for i := 0; i+len(path) <= len(msg); i++ {
		if msg[i:i+len(path)] == path {
			return true
		}
	}
	return false
}

// Defaults that share memory: two slices over one backing array, a pointer to the first element
// of a slice next to the slice. Every one of them is part of the result and has to be valid, in
// whichever order the fields are visited.
type adHeadFirst struct {
	Head []SBInner `config:"head"`
	All  []SBInner `config:"all"`
	X    int       `config:"x"`
}

type adAllFirst struct {
	All  []SBInner `config:"all"`
	Head []SBInner `config:"head"`
	X    int       `config:"x"`
}

type adPtrFirst struct {
	First *SBInner  `config:"first"`
	All   []SBInner `config:"all"`
	X     int       `config:"x"`
}

type adTwice struct {
	P *SBInner `config:"p"`
	Q *SBInner `config:"q" validate:"required"`
	X int      `config:"x"`
}

// adTwiceInt: one pointer in two fields, the bound in the tag of the second one only.
type adTwiceInt struct {
	P *int `config:"p"`
	Q *int `config:"q" validate:"min=5"`
	X int  `config:"x"`
}

func aliasedDefaultsCase(r *sim.R, e *E, opts []ucfg.Option) {
	t := r.T
	if t.Chance(1, 5, "one-pointer-two-fields-bound-on-the-second") {
		r.Probe("unpack: one pointer held by two fields, a bound in the tag of the second")
		v := []int{3, 7}[t.Choose(2, "value")]
		in := map[string]interface{}{}
		if t.Bool("mention-x") {
			in["x"] = uint64(3)
		}
		cfg, err := ucfg.NewFrom(in, opts...)
		if err != nil {
			panic("harness: aliased defaults config: " + err.Error())
		}
		target := adTwiceInt{P: &v, Q: &v}
		r.MustComplete("Unpack", func() { err = cfg.Unpack(&target, opts...) })
		r.StateOps++
		r.Tracef("config %v over p = q = &%d, q tagged min=5: %v", in, v, err)
		if v < 5 && err == nil {
			e.fail("validators-hold", "Unpack", nil, "Unpack succeeded although the result breaks a validator of a field's tag: q = %d breaks min=5 (a default; the field p holds the same pointer)", v)
		}
		if v >= 5 && err != nil {
			e.fail("success", "Unpack", nil, "Unpack of %v over valid defaults (one pointer in two fields) failed: %v", in, err)
		}
		return
	}
	r.Probe("unpack: defaults that share memory (slices over one array, pointer into a slice)")
	n := 2 + t.Choose(2, "elements")
	all := make([]SBInner, n)
	for i := range all {
		all[i].N = 1 + i
	}
	bad := -1
	if t.Chance(2, 3, "invalid-element") {
		bad = t.Choose(n, "invalid-at")
		all[bad].N = 0
	}
	in := map[string]interface{}{}
	if t.Bool("mention-x") {
		in["x"] = uint64(3)
	}
	cfg, err := ucfg.NewFrom(in, opts...)
	if err != nil {
		panic("harness: aliased defaults config: " + err.Error())
	}
	form := t.Choose(4, "aliased-defaults-form")
	var names []string
	switch form {
	case 0:
		target := adHeadFirst{Head: all[:1], All: all}
		r.MustComplete("Unpack", func() { err = cfg.Unpack(&target, opts...) })
		names = []string{"all", "head"}
	case 1:
		target := adAllFirst{All: all, Head: all[:1]}
		r.MustComplete("Unpack", func() { err = cfg.Unpack(&target, opts...) })
		names = []string{"all", "head"}
	case 2:
		target := adPtrFirst{First: &all[0], All: all}
		r.MustComplete("Unpack", func() { err = cfg.Unpack(&target, opts...) })
		names = []string{"all", "first"}
	default:
		target := adTwice{P: &all[0], Q: &all[0]}
		if bad > 0 {
			bad = 0
			all[0].N = 0
		}
		r.MustComplete("Unpack", func() { err = cfg.Unpack(&target, opts...) })
		names = []string{"p", "q"}
	}
	r.StateOps++
	r.Tracef("config %v over defaults sharing one array %v (form %d: 0 head,all 1 all,head 2 &all[0],all 3 the same pointer twice), invalid element %d: %v", in, all, form, bad, err)
	if bad >= 0 && err == nil {
		e.fail("validators-hold", "Unpack", nil,
			"Unpack succeeded although the result breaks a validator of a field's tag: element %d of the shared defaults has n = 0, which breaks min=1 (form %d: 0 head,all 1 all,head 2 &all[0],all 3 the same pointer twice)", bad, form)
	}
	if bad < 0 && err != nil {
		e.fail("success", "Unpack", nil, "Unpack of %v over valid defaults that share memory (form %d) failed: %v", in, form, err)
	}
	if bad >= 0 && err != nil {
		ok := false
		for _, nm := range names {
			if containsPath(err.Error(), "'"+nm+".") || containsPath(err.Error(), "'"+nm+"'") {
				ok = true
			}
		}
		if !ok {
			e.fail("error-names", "Unpack", nil, "Unpack failed (%v); the error names none of the fields %v that hold the invalid default", err, names)
		}
	}
}

// One struct type carrying two sets of validator tags; which set applies is an option of the
// call (ValidatorTag), not a property of the type: calls with different options on the same type
// in one process are judged by their own set each.
type dualTags struct {
	N int    `config:"n" validate:"max=4" apicheck:"max=64"`
	S string `config:"s" apicheck:"required"`
}

func validatorTagCase(r *sim.R, e *E, opts []ucfg.Option) {
	t := r.T
	r.Probe("unpack: one type unpacked under two ValidatorTag options in one process")
	first := t.Choose(2, "first-validator-tag")
	// both sets are used in every run, so that a verdict does not depend on what earlier runs of
	// this process did with the type
	seq := []int{first, 1 - first, first}
	for step, which := range seq {
		// every input is one the two sets disagree on: whatever an earlier run of this process did
		// with the type, a call judged by the other set shows in this run (and in its replay)
		nv, withS := 10, true
		if t.Bool("valid-under-validate-only") {
			nv, withS = 2, false
		}
		in := map[string]interface{}{"n": uint64(nv)}
		if withS {
			in["s"] = "v"
		}
		cfg, err := ucfg.NewFrom(in, opts...)
		if err != nil {
			panic("harness: validator tag config: " + err.Error())
		}
		o := append([]ucfg.Option{}, opts...)
		name := "validate"
		wantErr := nv > 4
		if which == 1 {
			name = "apicheck"
			o = append(o, ucfg.ValidatorTag("apicheck"))
			wantErr = nv > 64 || !withS
		}
		var target dualTags
		r.MustComplete("Unpack", func() { err = cfg.Unpack(&target, o...) })
		r.StateOps++
		r.Tracef("call %d: config %v into dualTags under validator tag %q: %v", step, in, name, err)
		if (err != nil) != wantErr {
			e.fail("validators-hold", "Unpack", nil,
				"Unpack of %v under the validator tag %q returned %v; the validators of that tag (validate: n max=4; apicheck: n max=64, s required) say error=%v", in, name, err, wantErr)
			return
		}
	}
}

// Entries a pre-filled map holds and the configuration does not mention stay in the result and
// have to be valid - however many other settings (nulls among them, which store nothing into a
// map of interface{} values) the configuration has for the map.
type keGeneric struct {
	M map[string]interface{} `config:"m"`
}

type keTyped struct {
	M map[string]*SBInner `config:"m"`
}

func keptEntriesCase(r *sim.R, e *E, opts []ucfg.Option) {
	t := r.T
	r.Probe("unpack: pre-filled map entries the configuration does not mention, next to null settings")
	nKept := 1 + t.Choose(2, "kept-entries")
	bad := -1
	if t.Chance(2, 3, "invalid-entry") {
		bad = t.Choose(nKept, "invalid-at")
	}
	nNull := t.Choose(4, "null-settings")
	nSet := t.Choose(2, "other-settings")
	m := map[string]interface{}{}
	for i := 0; i < nNull; i++ {
		m[fmt.Sprintf("gone%d", i)] = nil
	}
	for i := 0; i < nSet; i++ {
		m[fmt.Sprintf("new%d", i)] = map[string]interface{}{"n": uint64(3)}
	}
	in := map[string]interface{}{}
	if len(m) > 0 || t.Bool("mention-empty-map") {
		in["m"] = m
	}
	cfg, err := ucfg.NewFrom(in, opts...)
	if err != nil {
		panic("harness: kept entries config: " + err.Error())
	}
	typed := t.Bool("typed-map")
	if typed {
		to := keTyped{M: map[string]*SBInner{}}
		for i := 0; i < nKept; i++ {
			to.M[fmt.Sprintf("kept%d", i)] = &SBInner{N: 1 + i}
		}
		if bad >= 0 {
			to.M[fmt.Sprintf("kept%d", bad)].N = 0
		}
		r.MustComplete("Unpack", func() { err = cfg.Unpack(&to, opts...) })
	} else {
		to := keGeneric{M: map[string]interface{}{}}
		for i := 0; i < nKept; i++ {
			v := &SBInner{N: 1 + i}
			if i == bad {
				v.N = 0
			}
			to.M[fmt.Sprintf("kept%d", i)] = v
		}
		r.MustComplete("Unpack", func() { err = cfg.Unpack(&to, opts...) })
	}
	r.StateOps++
	r.Tracef("config %v into a map (typed: %v) pre-filled with %d entries, invalid entry %d: %v", in, typed, nKept, bad, err)
	if bad >= 0 && err == nil {
		e.fail("validators-hold", "Unpack", nil,
			"Unpack succeeded although the result breaks a validator of a field's tag: m.kept%d.n = 0 breaks min=1 (an entry the pre-filled map holds and the configuration does not mention; %d null settings, %d other settings for the map; typed map: %v)", bad, nNull, nSet, typed)
	}
	// (a null setting for a typed map builds a zero entry, which min=1 rejects: no verdict there)
	if bad < 0 && err != nil && !(typed && nNull > 0) {
		e.fail("success", "Unpack", nil, "Unpack of %v into a map pre-filled with valid entries failed: %v", in, err)
	}
	if bad >= 0 && err != nil && !containsPath(err.Error(), "'m") {
		e.fail("error-names", "Unpack", nil, "Unpack failed (%v); the error does not name the field m that holds the invalid entry", err)
	}
}
