package unpack

import (
	"fmt"
	"strconv"
	"strings"
)

type dataFault struct {
	path   string      // where the input is changed
	value  interface{} // new value (ignored when remove)
	remove bool
	names  string // the setting the error must name
	kind   string
	strict bool // with remove: the setting at fault is still there (and has a source), what it points to is gone
}

func copyIn(v interface{}) interface{} {
	switch x := v.(type) {
	case map[string]interface{}:
		m := map[string]interface{}{}
		for k, e := range x {
			m[k] = copyIn(e)
		}
		return m
	case []interface{}:
		l := make([]interface{}, len(x))
		for i, e := range x {
			l[i] = copyIn(e)
		}
		return l
	}
	return v
}

// mutate returns a copy of in with the setting at path replaced or removed.
func mutate(in map[string]interface{}, path string, value interface{}, remove bool) (map[string]interface{}, bool) {
	out := copyIn(in).(map[string]interface{})
	segs := strings.Split(path, ".")
	var cur interface{} = out
	for i, s := range segs {
		last := i == len(segs)-1
		switch c := cur.(type) {
		case map[string]interface{}:
			if last {
				if _, ok := c[s]; !ok {
					return nil, false
				}
				if remove {
					delete(c, s)
				} else {
					c[s] = value
				}
				return out, true
			}
			next, ok := c[s]
			if !ok {
				return nil, false
			}
			cur = next
		case []interface{}:
			idx, err := strconv.Atoi(s)
			if err != nil || idx >= len(c) {
				return nil, false
			}
			if last {
				if remove {
					return nil, false
				}
				c[idx] = value
				return out, true
			}
			cur = c[idx]
		default:
			return nil, false
		}
	}
	return nil, false
}

// faultsFor lists the single data faults applicable to a mentioned field.
func faultsFor(fc *FieldCase) []dataFault {
	p := fc.Path
	var out []dataFault
	add := func(kind string, at string, v interface{}, names string) {
		out = append(out, dataFault{path: at, value: v, names: names, kind: kind})
	}
	obj := map[string]interface{}{"zq": uint64(1)}
	if fc.Ref {
		// the setting stays, what it refers to disappears: an unresolvable reference
		return []dataFault{{path: fc.refName(), remove: true, names: p, kind: "unresolvable reference", strict: true}}
	}
	switch fc.F.Kind {
	case KInt, KPInt, KVInt, KUInt, KF64, KUFloat, KBool, KUBool, KPI, KUUint, KUVal, KUPrim:
		add("unparsable string for a number / boolean", p, "zz", p)
		add("object where a primitive is expected", p, obj, p)
	case KInt8:
		add("unparsable string for a number / boolean", p, "zz", p)
		add("out of range for the field's kind", p, uint64(300), p)
		add("out of range for the field's kind", p, int64(-300), p)
	case KUint16:
		add("out of range for the field's kind", p, int64(-1), p)
		add("out of range for the field's kind", p, uint64(70000), p)
	case KF32:
		add("unparsable string for a number / boolean", p, "zz", p)
		add("out of range for the field's kind", p, float64(1e39), p)
	case KDur, KPDur:
		add("unparsable duration", p, "zz", p)
	case KStr, KPStr, KVStr, KUStr, KPUStr:
		add("object where a primitive is expected", p, obj, p)
	case KMUCfg:
		add("primitive where an object is expected", p+".q", uint64(5), p+".q")
	case KURefl:
		add("primitive where an object is expected", p, uint64(5), p)
	case KURe:
		// the fault is below a custom Unpack method that re-roots the settings: the setting the
		// library can name is the one it handed to the method
		add("wrong type in a nested setting", p+".p", "zz", p)
		add("primitive where an object is expected", p, uint64(5), p)
	case KUCfg, KCfg, KStruct, KPStruct, KInner, KPInner, KDInt:
		add("primitive where an object is expected", p, uint64(5), p)
	case KSInt, KSVInt, KPSInt:
		add("wrong type inside a list", p+".0", "zz", p+".0")
	case KSStr, KSUStr:
		add("wrong type inside a list", p+".0", obj, p+".0")
	case KSUCfg:
		add("primitive where an object is expected", p+".1", uint64(5), p+".1")
	case KSMap:
		add("wrong type inside a map", p+".1.q", "zz", p+".1.q")
		add("primitive where an object is expected", p+".0", uint64(5), p+".0")
	case KRegex:
		// (an object for a regexp field is taken as the fields of the struct regexp.Regexp, of which none
		// is exported: it yields the empty expression. No claimed property says it must fail: not injected.)
		add("invalid regular expression", p, "a(b", p)
	case KMA2:
		add("wrong length for a fixed-size array", p+".q", []interface{}{uint64(1)}, p+".q")
		add("wrong type inside a map", p+".p.1", "zz", p+".p.1")
	case KA2, KPA2, KIA2:
		add("wrong length for a fixed-size array", p, []interface{}{uint64(1)}, p)
		add("wrong length for a fixed-size array", p, []interface{}{uint64(1), uint64(2), uint64(3)}, p)
		add("wrong type inside a list", p+".1", "zz", p+".1")
	case KPMInt:
		if _, ok := fc.In.(map[string]interface{})["p"]; ok {
			add("wrong type inside a map", p+".p", "zz", p+".p")
		}
		add("primitive where an object is expected", p, uint64(5), p)
	case KMInt, KMVInt:
		add("wrong type inside a map", p+".p", "zz", p+".p")
	case KMSlice:
		add("wrong type inside a map", p+".p.0", "zz", p+".p.0")
	case KSStruct:
		add("primitive where an object is expected", p+".0", uint64(5), p+".0")
	case KAStruct:
		add("primitive where an object is expected", p+".1", uint64(5), p+".1")
		add("wrong length for a fixed-size array", p, []interface{}{map[string]interface{}{}}, p)
	case KSSVInt:
		add("wrong type inside a list", p+".0.1", "zz", p+".0.1")
	case KMSVInt:
		add("wrong type inside a map", p+".q.0", "zz", p+".q.0")
	case KU64:
		add("unparsable string for a number / boolean", p, "zz", p)
		add("out of range for the field's kind", p, int64(-1), p)
	case KMStruct:
		add("primitive where an object is expected", p+"."+fc.Keys[0], uint64(5), p+"."+fc.Keys[0])
	}
	switch fc.F.Kind {
	case KSInt, KSVInt, KPSInt, KSStr, KSUStr, KA2, KPA2, KIA2, KSStruct, KAStruct, KSSVInt, KSUCfg, KSMap:
		// (a primitive is a list of one entry; an object with named settings is no list)
		add("object where a list is expected", p, obj, p)
	}
	switch fc.F.Kind {
	case KDInt:
		if _, ok := fc.In.(map[string]interface{})["a"]; ok {
			add("wrong type in a nested setting", p+".a", "zz", p+".a")
		}
	case KInner, KPInner:
		add("wrong type in a nested setting", p+".x", "zz", p+".x")
	}
	if fc.F.Required && !fc.Pre {
		// (a pre-filled value satisfies "required" without a setting)
		out = append(out, dataFault{path: p, remove: true, names: p, kind: "required setting removed"})
	}
	if fc.F.Required && fc.Pre && fc.PreVar == 1 {
		// ... unless it is the zero value: 0, "", also behind a pointer
		out = append(out, dataFault{path: p, remove: true, names: p, kind: "required setting removed, the default is the zero value"})
	}
	return out
}

// dataFaults injects every single data fault at every consumed setting.
func (e *E) dataFaults() {
	var all []dataFault
	e.C.walk(true, func(fc *FieldCase, mentioned bool) {
		if !mentioned || fc.F.Kind == KInline || fc.F.Ignore {
			return
		}
		all = append(all, faultsFor(fc)...)
	})
	if len(all) > 40 {
		all = all[:40]
	}
	for _, df := range all {
		in, ok := mutate(e.In, df.path, df.value, df.remove)
		if !ok {
			continue
		}
		e.R.NextStep()
		cfg := e.mkConfig(in)
		if cfg == nil {
			return
		}
		t := e.newTarget()
		snap := takeSnapshot(t)
		cb = &Callbacks{FailAt: -1}
		var err error
		e.R.MustComplete("Unpack", func() { err = cfg.Unpack(t.Interface(), e.Opts...) })
		what := fmt.Sprintf("%s at %s", df.kind, df.path)
		if !df.remove {
			what += fmt.Sprintf(" (= %v)", df.value)
		}
		e.R.Tracef("fault: %s -> %v", what, err)
		e.R.Fault("corrupted setting: " + df.kind)
		if err == nil {
			e.fail("fault-fails", "Unpack", map[string]string{"what": what, "kind": df.kind}, "Unpack accepted a corrupted setting: %s; result %+v", what, t.Elem())
			continue
		}
		// an absent setting has no source to mention
		e.checkError(err, "Unpack", []string{df.names}, df.remove && !df.strict, what)
		e.checkUnchanged(t, snap, "Unpack", what)
	}
}
