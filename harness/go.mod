module harness

go 1.23

require github.com/elastic/go-ucfg v0.0.0

replace github.com/elastic/go-ucfg => ../repo
