// Package order is engine E4: the same call is executed K times from
// identical initial states under different map-enumeration schedules chosen
// by the simulator (sorted, reversed, tape-drawn); all outcomes must be equal
// (C09). The oracle is metamorphic: there is no model.
package order

import (
	"fmt"
	"sort"
	"strconv"
	"strings"

	ucfg "github.com/elastic/go-ucfg"

	"harness/fp"
	"harness/model"
	"harness/sim"
	"harness/unpack"
	"harness/varexp"
	"harness/world"
)

// Outcome of one execution.
type Outcome struct {
	Kind  string // "ok" or the kind of error
	Data  string // canonical resulting data
	Shape uint64 // shape of the resulting internal graph
}

func (o Outcome) String() string { return o.Kind + " " + o.Data }

var sentinels = []error{ucfg.ErrMissing, ucfg.ErrNoParse, ucfg.ErrCyclicReference, ucfg.ErrTypeNoArray, ucfg.ErrTypeMismatch,
	ucfg.ErrKeyTypeNotString, ucfg.ErrIndexOutOfRange, ucfg.ErrPointerRequired, ucfg.ErrArraySizeMismatch, ucfg.ErrExpectedObject,
	ucfg.ErrNilConfig, ucfg.ErrNilValue, ucfg.ErrDuplicateKey, ucfg.ErrOverflow, ucfg.ErrNegative, ucfg.ErrZeroValue,
	ucfg.ErrRequired, ucfg.ErrEmpty, ucfg.ErrArrayEmpty, ucfg.ErrMapEmpty, ucfg.ErrRegexEmpty, ucfg.ErrStringEmpty}

// ErrKind classifies an error by its root reason.
func ErrKind(err error) string {
	if err == nil {
		return "ok"
	}
	cur := err
	for i := 0; i < 16; i++ {
		for _, s := range sentinels {
			if cur == s {
				return s.Error()
			}
		}
		e, ok := cur.(ucfg.Error)
		if !ok || e.Reason() == nil || e.Reason() == cur {
			break
		}
		cur = e.Reason()
	}
	return "error"
}

// schedules runs f under K schedules and compares.
func schedules(r *sim.R, k int, op string, detail map[string]string, kindsComparable bool, f func() Outcome) {
	var first Outcome
	var firstName string
	for i := 0; i < k; i++ {
		name := ""
		switch i {
		case 0:
			r.Order, name = sim.OrderSorted, "sorted"
		case 1:
			r.Order, name = sim.OrderReversed, "reversed"
		default:
			r.Order, name = sim.OrderTape, "tape-drawn #"+strconv.Itoa(i-1)
		}
		var o Outcome
		r.MustComplete(op, func() { o = f() })
		r.Tracef("%s under %s order: %s", op, name, o)
		if i == 0 {
			first, firstName = o, name
			continue
		}
		bad := ""
		switch {
		case (o.Kind == "ok") != (first.Kind == "ok"):
			bad = "success under one order, failure under another"
		case kindsComparable && o.Kind != first.Kind:
			bad = "different kinds of error"
		case o.Kind == "ok" && o.Data != first.Data:
			bad = "different resulting data"
		case o.Kind == "ok" && o.Shape != first.Shape:
			bad = "different resulting internal structure"
		}
		if bad != "" {
			r.FailD("same-outcome", op, detail, "%s depends on map enumeration order (%s):\n   %s order: %s\n   %s order: %s", op, bad, firstName, first, name, o)
		}
	}
	r.Order = sim.OrderSorted
}

func unpackOutcome(c *ucfg.Config, opts []ucfg.Option) Outcome {
	var m map[string]interface{}
	var l []interface{}
	var err error
	var data string
	if c.IsArray() && !c.IsDict() {
		err = c.Unpack(&l, opts...)
		data = model.CanonValue(l)
	} else {
		err = c.Unpack(&m, opts...)
		data = model.CanonValue(m)
	}
	if err != nil {
		return Outcome{Kind: ErrKind(err)}
	}
	return Outcome{Kind: "ok", Data: data, Shape: fp.Shape(c)}
}

// flatten renders a dictionary with some children spelled as dotted keys.
func flatten(r *sim.R, n *model.Node, depth int) map[string]interface{} {
	m := map[string]interface{}{}
	for _, k := range n.Keys() {
		c := n.D[k]
		if c.K == model.KSub && len(c.D) > 0 && len(c.A) == 0 && depth < 3 {
			switch r.T.Weighted([]int{3, 2, 1}, "spelling") {
			case 1: // all children dotted
				for kk, v := range flatten(r, c, depth+1) {
					m[k+"."+kk] = v
				}
				r.Probe("order: dotted spelling of a nested dictionary")
				continue
			case 2: // split: some children nested, the others dotted
				nested := model.Dict()
				dotted := model.Dict()
				for i, kk := range c.Keys() {
					if i%2 == 0 {
						nested.D[kk] = c.D[kk]
					} else {
						dotted.D[kk] = c.D[kk]
					}
				}
				if len(nested.D) > 0 {
					m[k] = flatten(r, nested, depth+1)
				}
				for kk, v := range flatten(r, dotted, depth+1) {
					m[k+"."+kk] = v
				}
				r.Probe("order: one dictionary spelled partly nested, partly dotted")
				continue
			}
		}
		if c.K == model.KSub && len(c.A) > 0 && len(c.D) == 0 && depth < 3 && r.T.Chance(1, 4, "spell-list-dotted") {
			for i, e := range c.A {
				m[k+"."+strconv.Itoa(i)] = world.Render(e, world.RepGeneric, nil)
			}
			r.Probe("order: list spelled as dotted index keys")
			continue
		}
		if c.K == model.KSub && len(c.A) > 0 && len(c.D) == 0 && depth < 3 && r.T.Chance(1, 4, "spell-list-numeric-map") {
			// a list written as a map with numeric keys; an element that is a dictionary may be
			// spelled partly under its plain index ("0": {...}) and partly dotted ("0.x": v)
			sub := map[string]interface{}{}
			for i, e := range c.A {
				key := strconv.Itoa(i)
				if e.K == model.KSub && len(e.D) >= 2 && len(e.A) == 0 && r.T.Bool("split-element") {
					nested := model.Dict()
					dotted := model.Dict()
					for j, kk := range e.Keys() {
						if j%2 == 0 {
							nested.D[kk] = e.D[kk]
						} else {
							dotted.D[kk] = e.D[kk]
						}
					}
					sub[key] = flatten(r, nested, depth+1)
					for kk, v := range flatten(r, dotted, depth+1) {
						sub[key+"."+kk] = v
					}
					r.Probe("order: list element spelled under its plain index and a dotted index")
				} else if e.K == model.KSub && len(e.D) > 0 && len(e.A) == 0 {
					sub[key] = flatten(r, e, depth+1)
				} else {
					sub[key] = world.Render(e, world.RepGeneric, nil)
				}
			}
			m[k] = sub
			r.Probe("order: list spelled as a map with numeric keys")
			continue
		}
		if c.K == model.KSub && len(c.D) > 0 && len(c.A) == 0 {
			m[k] = flatten(r, c, depth+1)
		} else {
			m[k] = world.Render(c, world.RepGeneric, nil)
		}
	}
	return m
}

func describe(v interface{}) string {
	switch x := v.(type) {
	case map[string]interface{}:
		ks := make([]string, 0, len(x))
		for k := range x {
			ks = append(ks, k)
		}
		sort.Strings(ks)
		var s []string
		for _, k := range ks {
			s = append(s, strconv.Quote(k)+":"+describe(x[k]))
		}
		return "{" + strings.Join(s, ",") + "}"
	case []interface{}:
		var s []string
		for _, e := range x {
			s = append(s, describe(e))
		}
		return "[" + strings.Join(s, ",") + "]"
	}
	return fmt.Sprintf("%#v", v)
}

// treeCase: NewFrom / Merge on generated trees with dotted-key spellings.
func treeCase(r *sim.R, k int) {
	t := r.T
	g := &world.Gen{R: r, MaxDepth: 1 + t.Choose(3, "max-depth"), MaxWidth: 1 + t.Choose(3, "max-width"), AllowNil: t.Bool("allow-nil"), AllowEmpty: t.Bool("allow-empty")}
	opts := []ucfg.Option{ucfg.PathSep(".")}
	a := g.Dict(1)
	in := flatten(r, a, 0)
	detail := map[string]string{"overlap": "false"}
	// the same setting defined twice, once nested and once dotted (must be rejected in every order)
	if !r.Avoid["O8"] && t.Chance(1, 5, "overlap") {
		var leaves [][]string
		a.Walk(func(x *model.Node, segs []model.Seg) {
			if x.K != model.KSub && x.K != model.KNil && len(segs) >= 2 {
				ok := true
				p := make([]string, len(segs))
				for i, s := range segs {
					if s.IsIdx {
						ok = false
					}
					p[i] = s.String()
				}
				if ok {
					leaves = append(leaves, p)
				}
			}
		})
		// dictionaries below the root: a dotted key may run through "their first list position"
		var dicts [][]string
		a.Walk(func(x *model.Node, segs []model.Seg) {
			if x.K == model.KSub && len(x.D) > 0 && len(x.A) == 0 && len(segs) >= 1 {
				p := make([]string, len(segs))
				for i, s := range segs {
					if s.IsIdx {
						return
					}
					p[i] = s.String()
				}
				dicts = append(dicts, p)
			}
		})
		if len(dicts) > 0 && t.Chance(1, 4, "overlap-through-index-of-dict") {
			// an object under a key next to a dotted key that goes through index 0 of the same key:
			// the object has no list part, so the dotted key starts one - in whichever order
			p := dicts[t.Choose(len(dicts), "overlap-dict")]
			in = world.Render(a, world.RepGeneric, nil).(map[string]interface{})
			if t.Bool("through-index-primitive") {
				in[strings.Join(p, ".")+".0"] = uint64(5)
			} else {
				in[strings.Join(p, ".")+".0.zz"] = "thru"
			}
			r.Fault("input holds an object next to a dotted key through its index 0")
			detail["overlap"] = "true"
		} else if len(leaves) > 0 {
			p := leaves[t.Choose(len(leaves), "overlap-leaf")]
			in = world.Render(a, world.RepGeneric, nil).(map[string]interface{})
			switch t.Choose(5, "overlap-kind") {
			case 4:
				// a setting below a top-level setting whose value is a reference to an object: that
				// object is not an object of this input, the dotted key defines the setting twice
				in["zk"] = "${zref}"
				in["zk.q.zz"] = "below"
				in["zref"] = map[string]interface{}{"q": map[string]interface{}{"z": uint64(1)}}
				opts = append(opts, ucfg.VarExp)
				r.Fault("input defines a setting below a setting that is a reference")
			case 0:
				in[strings.Join(p, ".")] = "dup"
				r.Fault("input defines one setting twice (nested and dotted)")
			case 1:
				// a key below a setting that has a primitive value: defined twice, in whichever order
				in[strings.Join(p, ".")+".zz"] = "below"
				r.Fault("input defines a setting below a primitive setting")
			case 2:
				// a null below a primitive setting, or for its first list position: defines nothing
				in[strings.Join(p, ".")+[]string{".zz", ".0"}[t.Choose(2, "null-below")]] = nil
				r.Fault("input holds a null below a primitive setting")
			default:
				// a null for the setting itself next to its value
				in[strings.Join(p, ".")] = nil
				r.Fault("input holds a null next to the value of a setting")
			}
			detail["overlap"] = "true"
		}
	}
	if t.Bool("case-merge") {
		// Merge(dst, src) where dst is built under the canonical order
		b := g.Dict(1)
		if t.Chance(1, 2, "source-of-the-destinations-shape") {
			// (most names and positions on both sides: policies meet containers at depth)
			b = g.Variant(a)
			r.Probe("order: merge source of the destination's shape")
		}
		src := flatten(r, b, 0)
		pol := []ucfg.Option{nil, ucfg.ReplaceValues, ucfg.ReplaceArrValues, ucfg.AppendValues, ucfg.PrependValues}[t.Choose(5, "policy")]
		mopts := opts
		if pol != nil {
			mopts = append(append([]ucfg.Option{}, opts...), pol)
		}
		// 0..2 per-field policies named after node paths of the operands
		var fdesc []string
		if t.Chance(1, 2, "with-field-options") {
			var cands [][]string
			for _, tr := range []*model.Node{a, b} {
				tr.Walk(func(x *model.Node, segs []model.Seg) {
					if len(segs) == 0 || len(segs) > 3 || x.K != model.KSub {
						return
					}
					p := make([]string, len(segs))
					for i, sg := range segs {
						p[i] = sg.String()
					}
					cands = append(cands, p)
				})
			}
			sort.Slice(cands, func(i, j int) bool { return strings.Join(cands[i], ".") < strings.Join(cands[j], ".") })
			used := map[string]bool{}
			for i := 0; i < 1+t.Choose(2, "n-field-options") && len(cands) > 0; i++ {
				p := cands[t.Choose(len(cands), "field-option-path")]
				key := strings.Join(p, ".")
				if used[key] || (r.Avoid["O12"] && world.SpuriousMatch(p, a, b)) {
					continue
				}
				used[key] = true
				switch t.Choose(3, "field-option-policy") {
				case 0:
					mopts = append(append([]ucfg.Option{}, mopts...), ucfg.FieldReplaceValues(key))
					fdesc = append(fdesc, key+"=replace")
				case 1:
					mopts = append(append([]ucfg.Option{}, mopts...), ucfg.FieldAppendValues(key))
					fdesc = append(fdesc, key+"=append")
				default:
					mopts = append(append([]ucfg.Option{}, mopts...), ucfg.FieldPrependValues(key))
					fdesc = append(fdesc, key+"=prepend")
				}
				r.Probe("order: merge with a per-field policy")
			}
		}
		r.Tracef("dst := NewFrom(%s); dst.Merge(%s) field options %v", describe(in), describe(src), fdesc)
		if detail["overlap"] == "true" {
			// the overlapping input is merged into an existing empty config: what the receiver holds
			// afterwards - also after a rejected merge - is part of the outcome
			r.Probe("order: overlapping input merged into an existing empty config")
			schedules(r, k, "Merge", detail, true, func() Outcome {
				dst := ucfg.New()
				err := dst.Merge(in, opts...)
				save := r.Order
				r.Order = sim.OrderSorted
				o := unpackOutcome(dst, opts)
				r.Order = save
				if err != nil {
					// (data is compared through the kind: a rejected merge has no other result)
					o.Kind = ErrKind(err) + " / receiver afterwards: " + o.Kind + " " + o.Data
				}
				return o
			})
			r.StateOps += 2
			return
		}
		// the source may be a section of the destination itself (merged into its parent), or the
		// destination a section of the source
		section, intoSection := "", false
		if t.Chance(1, 6, "merge-within-one-tree") {
			for _, kk := range a.Keys() {
				if c := a.D[kk]; c.PureDict() {
					section, intoSection = kk, t.Bool("parent-into-section")
					r.Probe("order: merge between a config and one of its own sections")
					r.Tracef("... the source is the section %q of the destination (parent into section: %v)", kk, intoSection)
					break
				}
			}
		}
		schedules(r, k, "Merge", detail, true, func() Outcome {
			save := r.Order
			r.Order = sim.OrderSorted
			dst, err := ucfg.NewFrom(in, opts...)
			r.Order = save
			if err != nil {
				return Outcome{Kind: "create: " + ErrKind(err)}
			}
			if section != "" {
				r.Order = sim.OrderSorted
				ch, cerr := dst.Child(section, -1, opts...)
				r.Order = save
				if cerr != nil {
					return Outcome{Kind: "child: " + ErrKind(cerr)}
				}
				if intoSection {
					err = ch.Merge(dst, mopts...)
				} else {
					err = dst.Merge(ch, mopts...)
				}
				if err != nil {
					return Outcome{Kind: ErrKind(err)}
				}
				r.Order = sim.OrderSorted
				o := unpackOutcome(dst, opts)
				r.Order = save
				return o
			}
			if err := dst.Merge(src, mopts...); err != nil {
				return Outcome{Kind: ErrKind(err)}
			}
			r.Order = sim.OrderSorted
			o := unpackOutcome(dst, opts)
			r.Order = save
			return o
		})
		r.StateOps += 2
		return
	}
	// one Config object as the value of two keys, with a dotted key extending the first: the object
	// is built afresh for every execution (a change that writes into it must not leak between them)
	embedKey := ""
	if detail["overlap"] == "false" && t.Chance(1, 5, "embed-config-twice") {
		for _, kk := range a.Keys() {
			if c := a.D[kk]; c.PureDict() {
				embedKey = kk
				break
			}
		}
	}
	mk := func() interface{} { return in }
	if embedKey != "" {
		plain := world.Render(a, world.RepGeneric, nil).(map[string]interface{})
		sub := plain[embedKey]
		mk = func() interface{} {
			save := r.Order
			r.Order = sim.OrderSorted
			x, err := ucfg.NewFrom(sub, opts...)
			r.Order = save
			if err != nil {
				return plain
			}
			m := map[string]interface{}{}
			for kk, v := range plain {
				m[kk] = v
			}
			m[embedKey], m["zz"], m[embedKey+".port"] = x, x, uint64(1)
			return m
		}
		r.Probe("order: one Config object under two keys next to a dotted key extending it")
		r.Tracef("NewFrom(%s with %q and \"zz\" holding one Config object, plus %q)", describe(plain), embedKey, embedKey+".port")
	} else {
		r.Tracef("NewFrom(%s)", describe(in))
	}
	schedules(r, k, "NewFrom", detail, true, func() Outcome {
		c, err := ucfg.NewFrom(mk(), opts...)
		if err != nil {
			return Outcome{Kind: ErrKind(err)}
		}
		save := r.Order
		r.Order = sim.OrderSorted
		o := unpackOutcome(c, opts)
		r.Order = save
		return o
	})
	r.StateOps += 2
}

// Run executes one E4 case.
func Run(r *sim.R, k int) {
	sched := func(op string, detail map[string]string, kinds bool, f func() (string, string, uint64)) {
		schedules(r, k, op, detail, kinds, func() Outcome {
			kind, data, shape := f()
			return Outcome{Kind: kind, Data: data, Shape: shape}
		})
	}
	switch r.T.Weighted([]int{3, 3, 2}, "family") {
	case 0:
		treeCase(r, k)
	case 2:
		unpack.OrderCase(r, sched, ErrKind)
	default:
		varexp.OrderCase(r, k, func(op string, detail map[string]string, kinds bool, f func() (string, string, uint64)) {
			schedules(r, k, op, detail, kinds, func() Outcome {
				kind, data, shape := f()
				return Outcome{Kind: kind, Data: data, Shape: shape}
			})
		}, ErrKind)
	}
}
