package varexp

import (
	"fmt"
	"strconv"

	ucfg "github.com/elastic/go-ucfg"
	"github.com/elastic/go-ucfg/parse"

	"harness/sim"
)

// Shared is a world built for engine E5: one config shared by several reader
// tasks, each reading with options of its own.
type Shared struct {
	E *E
	// the world parsed without a path separator (readers bring separators of their own)
	noSep bool
	root  *ucfg.Config
	names []string
	desc  string
}

// VNull is a null setting (only drawn for the shared worlds of E5; the expression model never meets it).
const VNull VKind = 50

// NewShared draws a world whose reads also resolve names through per-task
// resolvers, including answers that parse into objects and lists (which makes
// reads run normalization and spawn lexer goroutines).
func NewShared(r *sim.R) *Shared {
	e := &E{R: r, Prop: r.Prop, sep: "."}
	e.Setup()
	t := r.T
	if t.Chance(1, 5, "shared-parsed-without-separator") {
		// A config created with VarExp but without PathSep: "a.b" is a plain name next to the object
		// a: {b: ...}, and the name a nested reference computes is read as the config was parsed -
		// whatever separator the reader of the moment passes, and whoever read before it.
		in := map[string]interface{}{
			"a.b":  "flat" + e.tok(),
			"a":    map[string]interface{}{"b": "nested" + e.tok(), "c": nil},
			"name": "a.b",
			"r":    "${${name}}",
			"rd":   "${${name}:dflt}",
			"ra":   "x${${name}:+alt}",
			"p":    "${a.b}",
			"nl":   nil,
		}
		c, err := ucfg.NewFrom(in, ucfg.VarExp)
		if err != nil {
			panic("harness: shared config without separator: " + err.Error())
		}
		r.Probe("shared: config parsed without a path separator, readers differ in theirs")
		return &Shared{E: e, noSep: true, root: c, names: []string{"a", "a.b", "name", "nl", "nl.x", "p", "r", "ra", "rd"},
			desc: fmt.Sprint(in)}
	}
	// a few settings that go through the per-task resolvers
	extra := map[string]*setting{}
	if t.Bool("shared-obj") {
		extra["o"] = &setting{expr: &Ref{Name: Name{Path: "obj"}}}
	}
	if t.Bool("shared-lst") {
		extra["l"] = &setting{expr: &Ref{Name: Name{Path: "lst"}}}
	}
	if t.Bool("shared-tm") {
		extra["tm"] = &setting{expr: Cat{Lit(e.tok()), &Ref{Name: Name{Path: "tm"}}, &Op{Kind: 'd', Name: Name{Path: "tn"}, Arg: Lit(e.tok())}}}
	}
	if t.Bool("shared-plain") {
		extra["p"] = &setting{lit: e.container()}
	}
	if t.Bool("shared-empty-dict") {
		extra["ed"] = &setting{lit: &Val{K: VDict, D: map[string]*Val{}}}
	}
	if t.Bool("shared-empty-list") {
		extra["el"] = &setting{lit: &Val{K: VList}}
	}
	hasNull := t.Bool("shared-null")
	if hasNull {
		// a null stored under a name: looking at it as an object (Child, a path through it) is a read
		extra["nl"] = &setting{lit: &Val{K: VNull}}
	}
	for k, v := range extra {
		e.root[k] = v
	}
	e.buildQuiet()
	sh := &Shared{E: e}
	if hasNull {
		sh.names = append(e.settingNames(), "nl.x")
	}
	return sh
}

// Root is the shared config.
func (s *Shared) Root() *ucfg.Config {
	if s.root != nil {
		return s.root
	}
	return s.E.rootCfg
}

// Names are the names the readers use: the settings of the shared config, and paths through a null.
func (s *Shared) Names() []string {
	if s.names != nil {
		return s.names
	}
	return s.E.settingNames()
}

// Describe renders the world.
func (s *Shared) Describe() string {
	if s.desc != "" {
		return s.desc
	}
	return describeLayer(s.E.root)
}

// TaskOpts returns the options a task reads with: the world's options plus a
// resolver of its own whose answers carry the task's number.
func (s *Shared) TaskOpts(task int) []ucfg.Option {
	tag := "t" + strconv.Itoa(task)
	own := func(name string) (string, parse.Config, error) {
		switch name {
		case "tm", "m":
			return tag + "m", parse.DefaultConfig, nil
		case "obj":
			return "{p: " + tag + "p, q: [1, " + tag + "q], r: '${tm}'}", parse.DefaultConfig, nil
		case "lst":
			return "[" + tag + "a, " + tag + "b]", parse.DefaultConfig, nil
		}
		return "", parse.DefaultConfig, ucfg.ErrMissing
	}
	if s.noSep {
		// every reader brings its own idea of the separator
		o := []ucfg.Option{ucfg.VarExp, ucfg.Resolve(own)}
		switch task % 3 {
		case 1:
			o = append(o, ucfg.PathSep("."))
		case 2:
			o = append(o, ucfg.PathSep("/"))
		}
		return o
	}
	return append(append([]ucfg.Option{}, s.E.opts...), ucfg.Resolve(own))
}

// Quiet silences resolver fault draws for E5 (no outages: results must be comparable).
func (s *Shared) Quiet() {
	for _, r := range s.E.res {
		r.down, r.empty = map[string]bool{}, map[string]bool{}
	}
}

var _ = sim.OrderSorted
