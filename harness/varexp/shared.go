package varexp

import (
	"strconv"

	ucfg "github.com/elastic/go-ucfg"
	"github.com/elastic/go-ucfg/parse"

	"harness/sim"
)

// Shared is a world built for engine E5: one config shared by several reader
// tasks, each reading with options of its own.
type Shared struct {
	E *E
}

// NewShared draws a world whose reads also resolve names through per-task
// resolvers, including answers that parse into objects and lists (which makes
// reads run normalization and spawn lexer goroutines).
func NewShared(r *sim.R) *Shared {
	e := &E{R: r, Prop: r.Prop, sep: "."}
	e.Setup()
	t := r.T
	// a few settings that go through the per-task resolvers
	extra := map[string]*setting{}
	if t.Bool("shared-obj") {
		extra["o"] = &setting{expr: &Ref{Name: Name{Path: "obj"}}}
	}
	if t.Bool("shared-lst") {
		extra["l"] = &setting{expr: &Ref{Name: Name{Path: "lst"}}}
	}
	if t.Bool("shared-tm") {
		extra["tm"] = &setting{expr: Cat{Lit(e.tok()), &Ref{Name: Name{Path: "tm"}}, &Op{Kind: 'd', Name: Name{Path: "tn"}, Arg: Lit(e.tok())}}}
	}
	if t.Bool("shared-plain") {
		extra["p"] = &setting{lit: e.container()}
	}
	if t.Bool("shared-empty-dict") {
		extra["ed"] = &setting{lit: &Val{K: VDict, D: map[string]*Val{}}}
	}
	if t.Bool("shared-empty-list") {
		extra["el"] = &setting{lit: &Val{K: VList}}
	}
	for k, v := range extra {
		e.root[k] = v
	}
	e.buildQuiet()
	return &Shared{E: e}
}

// Root is the shared config.
func (s *Shared) Root() *ucfg.Config { return s.E.rootCfg }

// Names are the settings of the shared config.
func (s *Shared) Names() []string { return s.E.settingNames() }

// Describe renders the world.
func (s *Shared) Describe() string { return describeLayer(s.E.root) }

// TaskOpts returns the options a task reads with: the world's options plus a
// resolver of its own whose answers carry the task's number.
func (s *Shared) TaskOpts(task int) []ucfg.Option {
	tag := "t" + strconv.Itoa(task)
	own := func(name string) (string, parse.Config, error) {
		switch name {
		case "tm", "m":
			return tag + "m", parse.DefaultConfig, nil
		case "obj":
			return "{p: " + tag + "p, q: [1, " + tag + "q], r: '${tm}'}", parse.DefaultConfig, nil
		case "lst":
			return "[" + tag + "a, " + tag + "b]", parse.DefaultConfig, nil
		}
		return "", parse.DefaultConfig, ucfg.ErrMissing
	}
	return append(append([]ucfg.Option{}, s.E.opts...), ucfg.Resolve(own))
}

// Quiet silences resolver fault draws for E5 (no outages: results must be comparable).
func (s *Shared) Quiet() {
	for _, r := range s.E.res {
		r.down, r.empty = map[string]bool{}, map[string]bool{}
	}
}

var _ = sim.OrderSorted
