package varexp

import (
	"errors"
	"fmt"
	"sort"
	"strconv"
	"strings"

	ucfg "github.com/elastic/go-ucfg"
	"github.com/elastic/go-ucfg/diff"
	"github.com/elastic/go-ucfg/parse"

	"harness/fp"
	"harness/model"
	"harness/sim"
)

// setting of the root config or of an Env config.
type setting struct {
	lit  *Val
	expr Expr
}

type resolver struct {
	store  map[string]string // name -> text
	down   map[string]bool   // per read: outage for this name
	empty  map[string]bool   // per read: answers "" for this name
	anyErr bool              // outage error is an arbitrary error instead of ErrMissing
	calls  int
}

// E is the world of one E2 run.
type E struct {
	R    *sim.R
	Prop string
	ctr  int

	root      map[string]*setting // path -> setting ("a", "s.x")
	rootCfg   *ucfg.Config
	envs      []map[string]*setting
	envCfgs   []*ucfg.Config
	envDup    bool // the last Env option passes the first Env config again
	res       []*resolver
	opts      []ucfg.Option // PathSep, VarExp, Env..., Resolve...
	optsNoSep []ucfg.Option // the same without PathSep
	baseOpts  []ucfg.Option // PathSep, VarExp only (used for building)
	sep       string        // the path separator of this run: names in expressions, read paths and resolver names are spelled with it

	// model evaluation state
	active       map[string]bool
	depth        int
	sawAbsorb    bool                // a cycle was absorbed by a default or a resolver during this evaluation
	sawAltAbsorb bool                // ... by the alternative operator, which looks a name up without evaluating it
	evalCount    map[string]int      // how often each root setting was evaluated during this evaluation
	evalLog      map[string][]string // the outcomes of those evaluations, in order
	force        bool                // evaluate the contents of containers reached through references
}

var (
	rootNames = []string{"a", "b", "c", "d", "e", "s.x", "s.y", "l.0", "l.1"}
	envNames  = []string{"g", "h", "a", "s.x"}
	resNames  = []string{"m", "n", "a", "g", "s.z"}
	allNames  = []string{"a", "b", "c", "d", "e", "s.x", "s.y", "g", "h", "m", "n", "s.z", "z", "l.0", "l.1", "l", "s"}
)

// failD reports a failed oracle of C02 / C08. Under C07 the engine runs as a workload for the
// run-wide monitors only (panic, fatal error, termination): what a read returns is then a
// foreign observation.
func (e *E) failD(oracle, op string, detail map[string]string, format string, a ...interface{}) {
	if e.Prop == "C07" {
		e.R.Note("C08", oracle+"/"+op)
		return
	}
	e.R.FailD(oracle, op, detail, format, a...)
}

func (e *E) tok() string {
	e.ctr++
	return "v" + strconv.Itoa(e.ctr) + "x"
}

func (e *E) prim() *Val {
	e.ctr++
	switch e.R.T.Choose(5, "prim") {
	case 1:
		return &Val{K: VInt, I: int64(100 + e.ctr)}
	case 2:
		return &Val{K: VBool, B: e.ctr%2 == 0}
	case 3:
		return &Val{K: VFloat, F: float64(e.ctr) + 0.5}
	}
	return &Val{K: VStr, S: "v" + strconv.Itoa(e.ctr) + "x"}
}

func (e *E) container() *Val {
	if e.R.T.Bool("container-list") {
		v := &Val{K: VList}
		n := 1 + e.R.T.Choose(2, "list-len")
		for i := 0; i < n; i++ {
			v.L = append(v.L, e.prim())
		}
		return v
	}
	v := &Val{K: VDict, D: map[string]*Val{}}
	n := 1 + e.R.T.Choose(2, "dict-len")
	for i := 0; i < n; i++ {
		v.D[[]string{"p", "q"}[i]] = e.prim()
	}
	return v
}

// genName draws a reference name.
func (e *E) genName(depth int, noContainer bool) Name {
	t := e.R.T
	if depth < 2 && t.Chance(1, 10, "nested-name") {
		// the name is the value of another reference: ${${k}} — bind k to a name
		return Name{Nested: &Ref{Name: Name{Path: "k"}}}
	}
	if t.Chance(1, 12, "name-through-setting") {
		// a path that runs through another setting: ${a.x}, ${b.0}. When that setting is an
		// expression the walk itself evaluates it (and may come back to where it started)
		base := []string{"a", "b", "c", "d", "e"}[t.Choose(5, "through-base")]
		return Name{Path: base + "." + []string{"x", "0", "b", "y"}[t.Choose(4, "through-sub")]}
	}
	return Name{Path: allNames[t.Choose(len(allNames)-2*boolInt(noContainer), "ref-name")]}
}

// throughName: a path running through one of the top-level settings a..e (genName).
func throughName(path string) bool {
	return len(path) >= 3 && path[1] == '.' && path[0] >= 'a' && path[0] <= 'e'
}

func boolInt(b bool) int {
	if b {
		return 1
	}
	return 0
}

func (e *E) genExpr(depth, max int) Expr {
	t := e.R.T
	w := []int{3, 4, 3, 2, 1}
	if depth >= max {
		w[2], w[3] = 0, 0
	}
	switch t.Weighted(w, "expr-kind") {
	case 0:
		return Lit(e.tok())
	case 1:
		return &Ref{Name: e.genName(depth, depth > 0)}
	case 2:
		k := []byte{'d', 'a', 'e'}[t.Weighted([]int{3, 1, 1}, "op-kind")]
		return &Op{Kind: k, Name: e.genName(depth, true), Arg: e.genArg(depth+1, max)}
	case 3:
		n := 2 + t.Choose(2, "cat-len")
		c := Cat{Lit(e.tok())}
		for i := 1; i < n; i++ {
			x := e.genExpr(depth+1, max)
			if cc, ok := x.(Cat); ok {
				c = append(c, cc...)
			} else {
				c = append(c, x)
			}
		}
		// rotate so the literal is not always first
		r := t.Choose(len(c), "cat-rot")
		return append(append(Cat{}, c[r:]...), c[:r]...)
	default:
		return Cat{Lit(e.tok()), Esc([]byte{'$', '}'}[t.Choose(2, "esc")]), Lit(e.tok())}
	}
}

// genArg draws the argument of an operator: never empty, text only.
func (e *E) genArg(depth, max int) Expr {
	x := e.genExpr(depth, max)
	if r, ok := x.(*Ref); ok {
		return Cat{Lit(e.tok()), r}
	}
	return x
}

// genTop draws the expression of a setting.
func (e *E) genTop(max int) Expr {
	t := e.R.T
	switch t.Weighted([]int{4, 3, 3}, "top-kind") {
	case 0:
		return &Ref{Name: e.genName(0, false)}
	case 1:
		x := e.genExpr(0, max)
		if _, ok := x.(Lit); ok {
			return Cat{x, &Ref{Name: e.genName(1, true)}}
		}
		return x
	default:
		// the same name twice in one string / diamond
		n := e.genName(1, true)
		return Cat{&Ref{Name: n}, Lit(e.tok()), &Ref{Name: n}}
	}
}

// ---------------------------------------------------------------------------------------------
// Building the real objects.

func valToGo(v *Val) interface{} {
	switch v.K {
	case VStr:
		return v.S
	case VInt:
		return v.I
	case VBool:
		return v.B
	case VFloat:
		return v.F
	case VList:
		if len(v.L) == 0 {
			return []interface{}{}
		}
		l := make([]interface{}, len(v.L))
		for i, x := range v.L {
			l[i] = valToGo(x)
		}
		return l
	case VDict:
		m := map[string]interface{}{}
		for k, x := range v.D {
			m[k] = valToGo(x)
		}
		return m
	}
	return nil
}

func (e *E) settingToGo(s *setting) interface{} {
	if s.expr != nil {
		return RenderSep(s.expr, e.sep)
	}
	return valToGo(s.lit)
}

// sp spells a (dotted) model path with the separator of this run.
func (e *E) sp(path string) string { return strings.ReplaceAll(path, ".", e.sep) }

// unsp reads a name spelled with the separator of this run; under another separator a name with
// a "." in it is one segment, which no layer knows.
func (e *E) unsp(name string) (string, bool) {
	if e.sep == "." {
		return name, true
	}
	if strings.Contains(name, ".") {
		return name, false
	}
	return strings.ReplaceAll(name, e.sep, "."), true
}

func (e *E) layerToGo(l map[string]*setting) map[string]interface{} {
	m := map[string]interface{}{}
	ps := make([]string, 0, len(l))
	for p := range l {
		ps = append(ps, p)
	}
	sort.Strings(ps)
	for _, p := range ps {
		s := l[p]
		if i := strings.IndexByte(p, '.'); i >= 0 {
			sub, _ := m[p[:i]].(map[string]interface{})
			if sub == nil {
				sub = map[string]interface{}{}
				m[p[:i]] = sub
			}
			sub[p[i+1:]] = e.settingToGo(s)
		} else {
			m[p] = e.settingToGo(s)
		}
	}
	// a sub-map whose keys are all indices is a list
	for k, v := range m {
		sub, ok := v.(map[string]interface{})
		if !ok || len(sub) == 0 {
			continue
		}
		l := make([]interface{}, len(sub))
		isList := true
		for ik, iv := range sub {
			i, err := strconv.Atoi(ik)
			if err != nil || i < 0 || i >= len(l) {
				isList = false
				break
			}
			l[i] = iv
		}
		if isList {
			m[k] = l
		}
	}
	return m
}

func (e *E) mkResolver(i int) func(string) (string, parse.Config, error) {
	return func(asked string) (string, parse.Config, error) {
		r := e.res[i]
		name, spelled := e.unsp(asked)
		if !spelled {
			return "", parse.DefaultConfig, ucfg.ErrMissing
		}
		if r.down[name] {
			e.R.Fault("resolver outage during a read")
			if r.anyErr {
				return "", parse.DefaultConfig, errors.New("simulated resolver outage")
			}
			return "", parse.DefaultConfig, ucfg.ErrMissing
		}
		if r.empty[name] {
			e.R.Fault("resolver answers empty")
			return "", parse.DefaultConfig, nil
		}
		v, ok := r.store[name]
		if !ok {
			return "", parse.DefaultConfig, ucfg.ErrMissing
		}
		return v, parse.DefaultConfig, nil
	}
}

// Setup draws the initial world.
func (e *E) Setup() {
	t := e.R.T
	if e.sep == "" {
		// the separator is the caller's choice: the names a resolver is asked for are spelled as the
		// expression spells them
		e.sep = []string{".", "/", "#"}[t.Weighted([]int{5, 2, 1}, "path-separator")] // (":" belongs to the operators)
		if e.sep != "." {
			e.R.Probe("varexp: path separator other than the dot")
		}
	}
	e.baseOpts = []ucfg.Option{ucfg.PathSep(e.sep), ucfg.VarExp}
	e.root = map[string]*setting{}
	maxDepth := 1 + t.Choose(3, "expr-depth")
	nset := 2 + t.Choose(5, "n-settings")
	for i := 0; i < nset; i++ {
		name := rootNames[t.Choose(len(rootNames), "setting-name")]
		if name == "l.1" {
			if _, ok := e.root["l.0"]; !ok {
				name = "l.0" // a list has no holes
			}
		}
		if _, dup := e.root[name]; dup {
			continue
		}
		switch t.Weighted([]int{5, 3, 1}, "setting-kind") {
		case 0:
			e.root[name] = &setting{expr: e.genTop(maxDepth)}
		case 1:
			e.root[name] = &setting{lit: e.prim()}
		default:
			if !strings.Contains(name, ".") {
				e.root[name] = &setting{lit: e.container()}
			}
		}
	}
	// the name used by nested references: k names another setting
	if t.Bool("bind-k") {
		e.root["k"] = &setting{lit: &Val{K: VStr, S: e.sp(allNames[t.Choose(len(allNames)-2, "k-target")])}}
	}
	nenv := t.Choose(3, "n-env")
	if e.R.Avoid["O17"] {
		// known finding O17: Env configs are skipped for single-segment names
	}
	for i := 0; i < nenv; i++ {
		l := map[string]*setting{}
		n := 1 + t.Choose(3, "env-size")
		for j := 0; j < n; j++ {
			l[envNames[t.Choose(len(envNames), "env-name")]] = &setting{lit: e.prim()}
		}
		e.envs = append(e.envs, l)
	}
	if nenv >= 2 && t.Chance(1, 4, "env-config-passed-again") {
		// Env(a), Env(b), Env(a): the config passed again is the most recently added one
		e.envs = append(e.envs, e.envs[0])
		e.envDup = true
	}
	nres := t.Choose(4, "n-resolvers")
	for i := 0; i < nres; i++ {
		r := &resolver{store: map[string]string{}, anyErr: t.Bool("resolver-anyerr")}
		n := 1 + t.Choose(3, "res-size")
		for j := 0; j < n; j++ {
			name := resNames[t.Choose(len(resNames), "res-name")]
			if t.Chance(1, 4, "res-typed") {
				e.ctr++
				r.store[name] = strconv.Itoa(1000 + e.ctr)
			} else {
				r.store[name] = e.tok()
			}
		}
		e.res = append(e.res, r)
	}
	// most referenced names should be known to some layer: a run in which
	// everything is unresolvable explores little
	for _, name := range e.referenced() {
		// ("z" stays unknown on purpose; "s" is the name of a dictionary, defining it as a
		// primitive next to "s.x" in the same layer would be a contradictory input)
		if e.known(name) || name == "z" || name == "s" || name == "l" || !t.Chance(2, 3, "define-referenced") {
			continue
		}
		switch t.Choose(3, "define-layer") {
		case 0:
			// ("s" is the name of the nested dictionary: never a primitive)
			if name == "l.1" {
				if _, ok := e.root["l.0"]; !ok {
					continue // a list has no holes
				}
			}
			if name != "s" && (!strings.Contains(name, ".") || strings.HasPrefix(name, "s.") || strings.HasPrefix(name, "l.")) {
				if _, lit := e.root["s"]; !(lit && strings.HasPrefix(name, "s.")) {
					e.root[name] = &setting{lit: e.prim()}
				}
			}
		case 1:
			if strings.HasPrefix(name, "l.") {
				continue // (list elements only live in the root and in resolvers)
			}
			if len(e.envs) == 0 {
				e.envs = append(e.envs, map[string]*setting{})
			}
			e.envs[t.Choose(len(e.envs), "define-env")][name] = &setting{lit: e.prim()}
		default:
			if len(e.res) == 0 {
				e.res = append(e.res, &resolver{store: map[string]string{}})
			}
			e.res[t.Choose(len(e.res), "define-res")].store[name] = e.tok()
		}
	}
	e.build()
}

// referenced lists the literal names the root's expressions refer to.
func (e *E) referenced() []string {
	seen := map[string]bool{}
	var walk func(x Expr)
	name := func(n Name) {
		if n.Nested != nil {
			walk(n.Nested)
			return
		}
		if throughName(n.Path) {
			return // only ever referenced: defining "a.x" next to "a" is another input
		}
		seen[n.Path] = true
	}
	walk = func(x Expr) {
		switch v := x.(type) {
		case *Ref:
			name(v.Name)
		case *Op:
			name(v.Name)
			walk(v.Arg)
		case Cat:
			for _, p := range v {
				walk(p)
			}
		}
	}
	for _, k := range e.settingNames() {
		if e.root[k].expr != nil {
			walk(e.root[k].expr)
		}
	}
	out := make([]string, 0, len(seen))
	for k := range seen {
		out = append(out, k)
	}
	sort.Strings(out)
	return out
}

// known: is the name defined in some layer?
func (e *E) known(name string) bool {
	if s, v := lookupLayer(e.root, name); s != nil || v != nil {
		return true
	}
	if _, ok := e.subDict(e.root, name); ok {
		return true
	}
	for _, l := range e.envs {
		if s, v := lookupLayer(l, name); s != nil || v != nil {
			return true
		}
	}
	for _, r := range e.res {
		if _, ok := r.store[name]; ok {
			return true
		}
	}
	return false
}

func (e *E) build() {
	var err error
	e.R.MustComplete("NewFrom", func() { e.rootCfg, err = ucfg.NewFrom(e.layerToGo(e.root), e.baseOpts...) })
	if err != nil {
		e.R.Fail("create", "NewFrom", "NewFrom failed on a config with well-formed expressions: %v\n%v", err, e.layerToGo(e.root))
	}
	e.opts = append([]ucfg.Option{}, e.baseOpts...)
	e.envCfgs = nil
	for i, l := range e.envs {
		if e.envDup && i == len(e.envs)-1 {
			e.R.Probe("varexp: one Env config passed twice (it is the most recent one)")
			e.envCfgs = append(e.envCfgs, e.envCfgs[0])
			e.opts = append(e.opts, ucfg.Env(e.envCfgs[0]))
			continue
		}
		c, err := ucfg.NewFrom(e.layerToGo(l), ucfg.PathSep("."))
		if err != nil {
			panic("harness: env config: " + err.Error())
		}
		e.envCfgs = append(e.envCfgs, c)
		e.opts = append(e.opts, ucfg.Env(c))
	}
	for i := range e.res {
		e.opts = append(e.opts, ucfg.Resolve(e.mkResolver(i)))
	}
	e.optsNoSep = append([]ucfg.Option{}, e.opts[1:]...)
	if e.R.Trace {
		e.R.Tracef("root = %v", describeLayer(e.root))
		for i, l := range e.envs {
			e.R.Tracef("env[%d] = %v", i, describeLayer(l))
		}
		for i, r := range e.res {
			e.R.Tracef("resolver[%d] = %v", i, sortedMap(r.store))
		}
	}
}

func describeLayer(l map[string]*setting) string {
	ks := make([]string, 0, len(l))
	for k := range l {
		ks = append(ks, k)
	}
	sort.Strings(ks)
	var s []string
	for _, k := range ks {
		if l[k].expr != nil {
			s = append(s, fmt.Sprintf("%s: %q", k, Render(l[k].expr)))
		} else {
			s = append(s, fmt.Sprintf("%s: %s", k, l[k].lit.Canon()))
		}
	}
	return "{" + strings.Join(s, ", ") + "}"
}

func sortedMap(m map[string]string) string {
	ks := make([]string, 0, len(m))
	for k := range m {
		ks = append(ks, k)
	}
	sort.Strings(ks)
	var s []string
	for _, k := range ks {
		s = append(s, k+"="+m[k])
	}
	return "{" + strings.Join(s, ", ") + "}"
}

// ---------------------------------------------------------------------------------------------
// The expression model (C02 / C08).

func lookupLayer(l map[string]*setting, path string) (*setting, *Val) {
	if s, ok := l[path]; ok {
		return s, nil
	}
	// a path into a literal container: "a.p", or a whole sub-dictionary "s"
	if i := strings.LastIndexByte(path, '.'); i >= 0 {
		if s, ok := l[path[:i]]; ok && s.lit != nil {
			switch s.lit.K {
			case VDict:
				if v, ok := s.lit.D[path[i+1:]]; ok {
					return nil, v
				}
			case VList:
				if n, err := strconv.Atoi(path[i+1:]); err == nil && n >= 0 && n < len(s.lit.L) {
					return nil, s.lit.L[n]
				}
			}
		}
	}
	return nil, nil
}

// subDict collects the settings below prefix as a dictionary (for ${s}).
func (e *E) subDict(l map[string]*setting, prefix string) (map[string]*setting, bool) {
	out := map[string]*setting{}
	for p, s := range l {
		if strings.HasPrefix(p, prefix+".") {
			out[p[len(prefix)+1:]] = s
		}
	}
	return out, len(out) > 0
}

const maxModelDepth = 64

// evalName resolves a reference name to a value: owning root, then Env
// configs newest first, then resolvers newest first (C02); a re-entered
// reference is a cycle error at that point, which a resolver that knows the
// name absorbs (C08).
func (e *E) evalName(n Name) Outcome {
	path := n.Path
	if n.Nested != nil {
		o := e.evalNameText(n.Nested.Name)
		if o.E != EOK {
			return o
		}
		txt, ok := o.V.Text()
		if !ok {
			return Outcome{E: EType}
		}
		if txt == "" {
			return Outcome{E: EUnresolved}
		}
		var spelled bool
		if path, spelled = e.unsp(txt); !spelled {
			return Outcome{E: EUnresolved} // one segment with a "." in it: no layer knows such a name
		}
	}
	if throughName(path) {
		// a path through another setting (an expression, a primitive taken as a one-entry list,
		// a name only the environment knows): what the walk yields is left open - that the read
		// returns is demanded (C08)
		e.R.Probe("varexp: reference path running through another setting")
		return Outcome{E: EAny}
	}
	e.depth++
	defer func() { e.depth-- }()
	if e.depth > maxModelDepth {
		panic("harness: expression model recursion too deep")
	}
	if e.active[path] {
		// cycle at this point: only a resolver that knows the name absorbs it
		if o, ok := e.fromResolvers(path); ok {
			e.sawAbsorb = true
			return o
		}
		return Outcome{E: ECycle}
	}
	e.active[path] = true
	defer delete(e.active, path)

	// a path through a setting that is an expression (or a primitive): what the walk yields is
	// left open - only that the read returns (C08) is demanded

	// 1. the owning root
	if s, v := lookupLayer(e.root, path); s != nil || v != nil {
		if v != nil {
			return Outcome{V: v}
		}
		e.evalCount[path]++
		o := e.evalSetting(s)
		e.logEval(path, o)
		return o
	}
	if sub, ok := e.subDict(e.root, path); ok {
		d := &Val{K: VDict, D: map[string]*Val{}}
		if !e.force {
			d.Origin = path
			return Outcome{V: d} // contents not evaluated
		}
		ks := make([]string, 0, len(sub))
		for k := range sub {
			ks = append(ks, k)
		}
		sort.Strings(ks)
		var bad []Outcome
		for _, k := range ks {
			e.evalCount[path+"."+k]++
			o := e.evalSetting(sub[k])
			e.logEval(path+"."+k, o)
			if o.E != EOK {
				bad = append(bad, o)
				continue
			}
			d.D[k] = o.V
		}
		if len(bad) == 1 {
			return bad[0]
		}
		if len(bad) > 1 {
			for _, b := range bad {
				if b.E == EAny || b.E == EType {
					return Outcome{E: EAny}
				}
			}
			return Outcome{E: EErr}
		}
		return Outcome{V: listify(d)}
	}
	// 2. Env configs, most recently added first
	for i := len(e.envs) - 1; i >= 0; i-- {
		if s, v := lookupLayer(e.envs[i], path); s != nil || v != nil {
			e.R.Probe("varexp: name found in an Env config")
			if v != nil {
				return Outcome{V: v}
			}
			return Outcome{V: s.lit}
		}
		if sub, ok := e.subDict(e.envs[i], path); ok {
			d := &Val{K: VDict, D: map[string]*Val{}}
			for k, s := range sub {
				d.D[k] = s.lit
			}
			return Outcome{V: d}
		}
	}
	// 3. resolvers, most recently added first
	if o, ok := e.fromResolvers(path); ok {
		return o
	}
	return Outcome{E: EUnresolved}
}

// evalNameText evaluates a name whose value is wanted as text: the contents of
// a container it may resolve to are not evaluated.
func (e *E) evalNameText(n Name) Outcome {
	save := e.force
	e.force = false
	defer func() { e.force = save }()
	return e.evalName(n)
}

// exists tells whether a name is set: known to the owning root, an Env config
// or a resolver (with a non-empty answer), without evaluating it.
func (e *E) exists(n Name) (bool, EKind) {
	path := n.Path
	if n.Nested != nil {
		o := e.evalNameText(n.Nested.Name)
		if o.E == EAny {
			return false, EAny
		}
		if o.E != EOK {
			return false, EOK // the name itself cannot be computed: unset
		}
		txt, ok := o.V.Text()
		if !ok || txt == "" {
			return false, EOK
		}
		var spelled bool
		if path, spelled = e.unsp(txt); !spelled {
			return false, EOK
		}
	}
	if throughName(path) {
		return false, EAny
	}
	if !e.active[path] {
		if s, v := lookupLayer(e.root, path); s != nil || v != nil {
			return true, EOK
		}
		if _, ok := e.subDict(e.root, path); ok {
			return true, EOK
		}
		for i := len(e.envs) - 1; i >= 0; i-- {
			if s, v := lookupLayer(e.envs[i], path); s != nil || v != nil {
				return true, EOK
			}
			if _, ok := e.subDict(e.envs[i], path); ok {
				return true, EOK
			}
		}
	} else {
		// a reference that is still being evaluated: the cycle is absorbed by the operator
		e.sawAbsorb = true
		e.sawAltAbsorb = true
	}
	o, ok := e.fromResolvers(path)
	if ok && o.E == EAny {
		return false, EOK // empty answer: unset
	}
	return ok, EOK
}

func (e *E) fromResolvers(path string) (Outcome, bool) {
	for i := len(e.res) - 1; i >= 0; i-- {
		r := e.res[i]
		if r.down[path] {
			e.R.Probe("varexp: resolver down, fell through to an older one")
			continue
		}
		if r.empty[path] {
			// an empty answer: unset-or-empty for the operators; what a plain
			// reference to it yields is left open by the statements
			return Outcome{E: EAny, Msg: "empty"}, true
		}
		if txt, ok := r.store[path]; ok {
			if i < len(e.res)-1 {
				e.R.Probe("varexp: answered by an older resolver")
			}
			if n, err := strconv.ParseInt(txt, 10, 64); err == nil {
				return Outcome{V: &Val{K: VInt, I: n}}, true
			}
			return Outcome{V: &Val{K: VStr, S: txt}}, true
		}
	}
	return Outcome{}, false
}

func (e *E) evalSetting(s *setting) Outcome {
	if s.expr == nil {
		return Outcome{V: s.lit}
	}
	return e.evalTop(s.expr)
}

// evalTop evaluates the expression of a setting: a string that is exactly one
// reference takes the referenced value with its type; everything else is text.
func (e *E) evalTop(x Expr) Outcome {
	if r, ok := x.(*Ref); ok && r.Name.Nested == nil {
		return e.evalName(r.Name)
	}
	txt, k, msg := e.evalText(x)
	if k != EOK {
		return Outcome{E: k, Msg: msg}
	}
	return Outcome{V: textVal(txt)}
}

// textVal: text produced by substitution reads back typed when it is the
// text of exactly one number or boolean; otherwise it is a string.
func textVal(txt string) *Val {
	if n, err := strconv.ParseInt(txt, 10, 64); err == nil {
		return &Val{K: VInt, I: n}
	}
	if txt == "true" || txt == "false" {
		return &Val{K: VBool, B: txt == "true"}
	}
	if f, err := strconv.ParseFloat(txt, 64); err == nil && strings.ContainsAny(txt, ".") {
		return &Val{K: VFloat, F: f}
	}
	return &Val{K: VStr, S: txt}
}

func (e *E) evalText(x Expr) (string, EKind, string) {
	switch v := x.(type) {
	case Lit:
		return string(v), EOK, ""
	case Esc:
		return string(rune(v)), EOK, ""
	case Cat:
		var b strings.Builder
		for _, p := range v {
			s, k, m := e.evalText(p)
			if k != EOK {
				return "", k, m
			}
			b.WriteString(s)
		}
		return b.String(), EOK, ""
	case *Ref:
		o := e.evalNameText(v.Name)
		if o.E == EAny {
			return "", EAny, ""
		}
		if o.E != EOK {
			return "", o.E, o.Msg
		}
		s, ok := o.V.Text()
		if !ok {
			return "", EType, ""
		}
		return s, EOK, ""
	case *Op:
		if v.Kind == 'a' {
			// ${x:+a}: a only when x is set - the name is looked up, not evaluated
			set, k := e.exists(v.Name)
			if k != EOK {
				return "", k, ""
			}
			if set {
				return e.evalText(v.Arg)
			}
			return "", EOK, ""
		}
		o := e.evalNameText(v.Name)
		if o.E == EAny && o.Msg != "empty" {
			return "", EAny, ""
		}
		set := o.E == EOK
		txt := ""
		if set {
			var ok bool
			txt, ok = o.V.Text()
			if !ok {
				return "", EAny, "" // an operator applied to a container: left open
			}
		}
		if o.E == EType {
			return "", EAny, ""
		}
		switch v.Kind {
		case 'd':
			if set && txt != "" {
				return txt, EOK, ""
			}
			if !set && (o.E == ECycle) {
				e.sawAbsorb = true
				e.R.Probe("varexp: cycle absorbed by a default")
			}
			return e.evalText(v.Arg)
		case 'a':
			return "", EAny, "" // not reached: handled before evaluation

		default:
			if set && txt != "" {
				return txt, EOK, ""
			}
			m, k, mm := e.evalText(v.Arg)
			if k != EOK {
				return "", k, mm
			}
			return "", EOper, m
		}
	}
	panic("harness: unknown expression node")
}

// ---------------------------------------------------------------------------------------------
// Reads and their comparison.

func rootReason(err error) error {
	for i := 0; i < 16; i++ {
		e, ok := err.(ucfg.Error)
		if !ok {
			return err
		}
		r := e.Reason()
		if r == nil || r == err {
			return err
		}
		err = r
	}
	return err
}

func isCycle(err error) bool {
	for i := 0; i < 16 && err != nil; i++ {
		if err == ucfg.ErrCyclicReference {
			return true
		}
		e, ok := err.(ucfg.Error)
		if !ok {
			return strings.Contains(err.Error(), "cyclic reference")
		}
		if e.Reason() == ucfg.ErrCyclicReference {
			return true
		}
		if e.Reason() == err {
			break
		}
		err = e.Reason()
	}
	return false
}

// expect compares an implementation result with the model outcome.
func (e *E) expect(op, what string, o Outcome, got string, err error) {
	switch o.E {
	case EOK:
		if err != nil {
			kind := "resolves"
			if isCycle(err) {
				e.failD("false-cycle", op, map[string]string{"setting": what}, "%s of %s reports a cyclic reference, but the evaluation never re-enters a reference (expected %s): %v", op, what, o.V.Canon(), err)
			}
			e.failD("resolves", op, map[string]string{"setting": what}, "%s of %s failed (%v) but it %s to %s", op, what, err, kind, o.V.Canon())
		}
		if got != o.V.Canon() {
			e.failD("value", op, map[string]string{"setting": what, "got": got, "want": o.V.Canon()}, "%s of %s = %s, late-bound substitution gives %s", op, what, got, o.V.Canon())
		}
	case ECycle:
		if err == nil {
			e.failD("cycle-is-error", op, map[string]string{"setting": what, "got": got}, "%s of %s = %s, but the reference graph is cyclic: expected a cyclic-reference error", op, what, got)
		}
		e.R.Fault("cyclic reference graph read")
	case EUnresolved:
		if err == nil {
			e.failD("unresolved-is-error", op, map[string]string{"setting": what, "got": got}, "%s of %s = %s, but a reference in it cannot be resolved anywhere: expected an error, never a silently empty value", op, what, got)
		}
		e.R.Fault("unresolvable reference read")
	case EOper:
		if err == nil {
			e.failD("error-operator", op, map[string]string{"setting": what, "got": got}, "%s of %s = %s, but ${x:?%s} must fail", op, what, got, o.Msg)
		} else if !strings.Contains(err.Error(), o.Msg) && !strings.Contains(fmt.Sprint(rootReason(err)), o.Msg) {
			e.failD("error-operator", op, map[string]string{"setting": what}, "%s of %s failed with %v, expected the message %q of the :? operator", op, what, err, o.Msg)
		}
		e.R.Fault("error operator fired")
	case EType:
		if err == nil {
			e.R.Note("C02", "container spliced into text accepted")
		}
	case EAny:
	case EErr:
		if err == nil {
			e.failD("unresolved-is-error", op, map[string]string{"setting": what, "got": got}, "%s of %s = %s, but several settings it needs cannot be evaluated: expected an error", op, what, got)
		}
	}
}

func (e *E) modelOf(path string) (Outcome, bool) {
	s, ok := e.root[path]
	if !ok {
		return Outcome{}, false
	}
	e.active = map[string]bool{}
	e.depth = 0
	e.evalCount[path]++
	o := e.evalSetting(s)
	e.logEval(path, o)
	return o, true
}

func (e *E) logEval(path string, o Outcome) {
	k := "!" + o.E.String() + o.Msg
	if o.E == EOK {
		k = o.V.Canon()
	}
	e.evalLog[path] = append(e.evalLog[path], k)
}

// begin starts the model's view of one library call.
func (e *E) begin(force bool) {
	e.sawAbsorb = false
	e.sawAltAbsorb = false
	e.evalCount = map[string]int{}
	e.evalLog = map[string][]string{}
	e.force = force
}

// ambiguous: a cycle was absorbed while some setting was evaluated more than
// once. The library's per-call value cache then makes the value depend on
// which evaluation came first; the statements do not say which, so the value
// is not compared (termination and panics still are).
func (e *E) ambiguous() bool {
	if !e.sawAbsorb {
		return false
	}
	// The library caches successful evaluations of a setting for the rest of the call
	// (failures are not cached). The cache is invisible unless a setting that was evaluated
	// successfully is needed again in a context where it evaluates differently.
	for _, log := range e.evalLog {
		for i, a := range log {
			if strings.HasPrefix(a, "!") {
				continue
			}
			for _, b := range log[i+1:] {
				if a != b {
					return true
				}
			}
		}
	}
	return false
}

func (e *E) settingNames() []string {
	ks := make([]string, 0, len(e.root))
	for k := range e.root {
		ks = append(ks, k)
	}
	sort.Strings(ks)
	return ks
}

// drawFaults decides, for the duration of one read, which resolver is down
// or answers empty for which name.
func (e *E) drawFaults() {
	t := e.R.T
	for i, r := range e.res {
		r.down, r.empty = map[string]bool{}, map[string]bool{}
		if !t.Chance(1, 3, "resolver-fault") {
			continue
		}
		name := resNames[t.Choose(len(resNames), "fault-name")]
		if t.Chance(1, 4, "fault-empty") {
			r.empty[name] = true
			e.R.Tracef("  resolver[%d] answers empty for %q during this read", i, name)
		} else {
			r.down[name] = true
			e.R.Tracef("  resolver[%d] is down for %q during this read", i, name)
		}
	}
}

func canonOf(v interface{}) string { return model.CanonValue(v) }

// Read performs one read of one setting through one entry point.
func (e *E) Read() {
	t := e.R.T
	names := e.settingNames()
	if len(names) == 0 {
		return
	}
	path := names[t.Choose(len(names), "read-setting")]
	e.drawFaults()
	kind := t.Weighted([]int{4, 3, 2, 1, 1, 2}, "read-kind")
	e.begin(false)
	o, _ := e.modelOf(path)
	if e.ambiguous() {
		o = Outcome{E: EAny}
		e.R.Probe("varexp: value left open (cycle absorbed while a setting is evaluated twice)")
	}
	before := fp.Fingerprint(e.rootCfg)
	cfg, name := e.rootCfg, path
	via := ""
	if i := strings.IndexByte(path, '.'); i >= 0 && t.Bool("read-via-child") {
		var err error
		e.R.MustComplete("Child", func() { cfg, err = e.rootCfg.Child(path[:i], -1, e.opts...) })
		if err != nil {
			e.R.Fail("resolves", "Child", "Child(%q) failed: %v", path[:i], err)
		}
		name = path[i+1:]
		via = " via child " + path[:i]
		e.R.Probe("varexp: read through a child config")
	}
	// the separator belongs to the config as it was parsed: a read of a top-level setting that does
	// not repeat the PathSep option sees the same values
	ro := e.opts
	if via == "" && !strings.Contains(name, ".") && t.Chance(1, 4, "read-without-pathsep") {
		ro = e.optsNoSep
		e.R.Probe("varexp: read without repeating the PathSep option")
	}
	switch kind {
	case 0: // String
		var s string
		var err error
		e.R.MustComplete("String", func() { s, err = cfg.String(e.sp(name), -1, ro...) })
		e.R.Tracef("String(%q)%s = %q, %v   [model: %s]", name, via, s, err, describeOutcome(o))
		if o.E == EOK {
			txt, ok := o.V.Text()
			if !ok {
				if err == nil {
					e.R.Fail("value", "String", "String(%q) = %q but the setting holds a container", name, s)
				}
				e.R.Fault("container read as text")
				break
			}
			e.expect("String", path, Outcome{V: &Val{K: VStr, S: txt}}, strconv.Quote(s), err)
		} else {
			e.expect("String", path, o, strconv.Quote(s), err)
		}
	case 1: // typed getter matching the expected kind, or Child + Unpack for a container
		if o.E == EOK && (o.V.K == VDict || o.V.K == VList) {
			// the contents are evaluated by the Unpack of the child, in a call of its own
			if o.V.Origin != "" {
				o = e.contentsOf(o.V.Origin)
			}
			var c *ucfg.Config
			var err error
			var got string
			e.R.MustComplete("Child", func() { c, err = cfg.Child(e.sp(name), -1, e.opts...) })
			if err == nil {
				got, err = e.unpackCfg(c)
			}
			e.R.Tracef("Child(%q)%s + Unpack = %s, %v   [model: %s]", name, via, got, err, describeOutcome(o))
			e.R.Probe("varexp: reference to a container read with its type")
			e.expect("Child", path, o, got, err)
			break
		}
		if o.E == EOK {
			var got string
			var err error
			op := ""
			switch o.V.K {
			case VInt:
				op = "Int"
				var i int64
				e.R.MustComplete(op, func() { i, err = cfg.Int(e.sp(name), -1, ro...) })
				got = strconv.FormatInt(i, 10)
			case VBool:
				op = "Bool"
				var b bool
				e.R.MustComplete(op, func() { b, err = cfg.Bool(e.sp(name), -1, ro...) })
				got = strconv.FormatBool(b)
			case VFloat:
				op = "Float"
				var f float64
				e.R.MustComplete(op, func() { f, err = cfg.Float(e.sp(name), -1, ro...) })
				got = canonOf(f)
			case VStr:
				op = "String"
				var s string
				e.R.MustComplete(op, func() { s, err = cfg.String(e.sp(name), -1, ro...) })
				got = strconv.Quote(s)
			default:
				op = "Child"
				var c *ucfg.Config
				e.R.MustComplete(op, func() { c, err = cfg.Child(e.sp(name), -1, e.opts...) })
				if err == nil {
					got, err = e.unpackCfg(c)
				}
				e.R.Probe("varexp: reference to a container read with its type")
			}
			e.R.Tracef("%s(%q)%s = %s, %v   [model: %s]", op, name, via, got, err, describeOutcome(o))
			e.expect(op, path, o, got, err)
		} else {
			var err error
			e.R.MustComplete("Int", func() { _, err = cfg.Int(e.sp(name), -1, ro...) })
			e.R.Tracef("Int(%q)%s = %v   [model: %s]", name, via, err, describeOutcome(o))
			e.expect("Int", path, o, "?", err)
		}
	case 2: // Unpack of the whole root into a generic map
		e.readAll()
	case 5: // Unpack of the root into a drawn struct type
		e.readTyped()
	case 3: // FlattenedKeys / CompareConfigs: must terminate (C08) and not change anything
		var keys []string
		var d diff.Diff
		e.R.MustComplete("FlattenedKeys", func() { keys = e.rootCfg.FlattenedKeys(e.opts...) })
		e.R.MustComplete("CompareConfigs", func() { d = diff.CompareConfigs(e.rootCfg, e.rootCfg, e.opts...) })
		want, known := e.expectedFlat()
		for i := range want {
			want[i] = e.sp(want[i])
		}
		e.R.Tracef("FlattenedKeys = %v   [model: %v, comparable: %v]", keys, want, known)
		e.R.Probe("varexp: FlattenedKeys / CompareConfigs on a config with references")
		if known {
			if strings.Join(keys, "\x00") != strings.Join(want, "\x00") {
				e.failD("flatkeys", "FlattenedKeys", map[string]string{"got": strings.Join(keys, ","), "want": strings.Join(want, ",")},
					"FlattenedKeys = %v; following every reference that evaluates to a container and reporting everything else as a key of its own gives %v", keys, want)
			}
			uniq := map[string]bool{}
			for _, k := range want {
				uniq[k] = true
			}
			kept := map[string]bool{}
			for _, k := range d[diff.Keep] {
				kept[k] = true
			}
			if len(d[diff.Add]) > 0 || len(d[diff.Remove]) > 0 || len(kept) != len(uniq) {
				e.failD("flatkeys", "CompareConfigs", nil, "a config with references compared with itself: kept %v added %v removed %v; its keys are %v", d[diff.Keep], d[diff.Add], d[diff.Remove], want)
			}
			e.R.Probe("varexp: FlattenedKeys compared with the model")
		}
	case 4: // Has / CountField: must terminate; Has is true for a stored setting
		var has bool
		var err error
		e.R.MustComplete("Has", func() { has, err = cfg.Has(e.sp(name), -1, ro...) })
		if err == nil && !has {
			e.R.Fail("value", "Has", "Has(%q) = false for a stored setting", name)
		}
		if _, numeric := strconv.Atoi(name); !strings.Contains(name, ".") && numeric != nil {
			// (CountField takes a name, not an index.) CountField evaluates the setting: a primitive counts as one entry, and what cannot be
			// evaluated is an error here as in every other read (C08: "every read operation")
			var n int
			var cerr error
			e.R.MustComplete("CountField", func() { n, cerr = cfg.CountField(e.sp(name), ro...) })
			e.R.Tracef("CountField(%q)%s = %d, %v   [model: %s]", name, via, n, cerr, describeOutcome(o))
			if _, typed := cerr.(ucfg.Error); cerr != nil && !typed {
				e.R.Note("C14", "error-typed/CountField")
			}
			switch {
			case o.E == EOK && (o.V.K == VDict || o.V.K == VList):
				if cerr != nil {
					e.expect("CountField", path, o, "?", cerr)
				}
			case o.E == EOK:
				e.expect("CountField", path, Outcome{V: &Val{K: VInt, I: 1}}, strconv.Itoa(n), cerr)
			case o.E == EType:
			default:
				e.expect("CountField", path, o, strconv.Itoa(n), cerr)
			}
		}
	}
	if after := fp.Fingerprint(e.rootCfg); after != before {
		if e.Prop == "C11" {
			e.R.Fail("read-pure", "Read", "a read changed the internal state of the config")
		}
		e.R.Note("C11", "read changed internal state")
	}
}

// contentsOf evaluates the settings below a root path as one Unpack of that
// sub-config does: every setting in a fresh evaluation, sharing one call.
func (e *E) contentsOf(origin string) Outcome {
	sub, _ := e.subDict(e.root, origin)
	d := &Val{K: VDict, D: map[string]*Val{}}
	ks := make([]string, 0, len(sub))
	for k := range sub {
		ks = append(ks, k)
	}
	sort.Strings(ks)
	absorbed := false
	var bad *Outcome
	for _, k := range ks {
		e.begin(true)
		o, _ := e.modelOf(origin + "." + k)
		if e.sawAbsorb {
			absorbed = true
		}
		if o.E != EOK {
			if bad == nil {
				oo := o
				bad = &oo
			} else if bad.E != o.E || bad.Msg != o.Msg {
				if bad.E == EAny || o.E == EAny || bad.E == EType || o.E == EType {
					bad.E = EAny
				} else if bad.E != EAny {
					bad.E = EErr
				}
			}
			continue
		}
		d.D[k] = o.V
	}
	if absorbed {
		return Outcome{E: EAny}
	}
	if bad != nil {
		if bad.E == EType {
			return Outcome{E: EAny}
		}
		return *bad
	}
	return Outcome{V: listify(d)}
}

// listify turns a dictionary whose keys are exactly 0..n-1 into a list.
func listify(d *Val) *Val {
	if d.K != VDict || len(d.D) == 0 {
		return d
	}
	l := make([]*Val, len(d.D))
	for k, v := range d.D {
		i, err := strconv.Atoi(k)
		if err != nil || i < 0 || i >= len(l) {
			return d
		}
		l[i] = v
	}
	return &Val{K: VList, L: l}
}

func describeOutcome(o Outcome) string {
	if o.E == EOK {
		return o.V.Canon()
	}
	if o.E == EOper {
		return o.E.String() + " " + strconv.Quote(o.Msg)
	}
	return o.E.String()
}

func (e *E) unpackCfg(c *ucfg.Config) (string, error) {
	var err error
	var out interface{}
	if c.IsArray() && !c.IsDict() {
		var l []interface{}
		e.R.MustComplete("Unpack", func() { err = c.Unpack(&l, e.opts...) })
		out = l
	} else {
		var m map[string]interface{}
		e.R.MustComplete("Unpack", func() { err = c.Unpack(&m, e.opts...) })
		out = m
	}
	return canonOf(out), err
}

// readAll unpacks the whole root and compares every setting.
func (e *E) readAll() {
	var m map[string]interface{}
	var err error
	e.R.MustComplete("Unpack", func() { err = e.rootCfg.Unpack(&m, e.opts...) })
	// model: every setting
	outs := map[string]Outcome{}
	failing := 0
	absorbed := false
	for _, p := range e.settingNames() {
		e.begin(true)
		o, _ := e.modelOf(p)
		outs[p] = o
		if o.E != EOK {
			failing++
		}
		if e.sawAbsorb {
			absorbed = true
		}
	}
	if absorbed {
		// all settings are evaluated in one call sharing the value cache, in
		// enumeration order: with an absorbed cycle the statements leave the values open
		e.R.Probe("varexp: value left open (cycle absorbed while a setting is evaluated twice)")
		return
	}
	e.R.Tracef("Unpack(root) = %s, %v", canonOf(m), err)
	if failing > 0 {
		if err == nil {
			for _, p := range e.settingNames() {
				if outs[p].E != EOK && outs[p].E != EType && outs[p].E != EAny {
					e.expect("Unpack", p, outs[p], canonOf(lookupGo(m, p)), nil)
				}
			}
		}
		return
	}
	if err != nil {
		if isCycle(err) {
			e.failD("false-cycle", "Unpack", nil, "Unpack of the root reports a cyclic reference, but no setting's evaluation re-enters a reference: %v", err)
		}
		e.failD("resolves", "Unpack", nil, "Unpack of the root failed (%v) although every setting resolves", err)
	}
	for _, p := range e.settingNames() {
		got := canonOf(lookupGo(m, p))
		if got != outs[p].V.Canon() {
			e.failD("value", "Unpack", map[string]string{"setting": p, "got": got, "want": outs[p].V.Canon()}, "Unpack: setting %s = %s, late-bound substitution gives %s", p, got, outs[p].V.Canon())
		}
	}
}

func lookupGo(m map[string]interface{}, path string) interface{} {
	var cur interface{} = m
	for _, seg := range strings.Split(path, ".") {
		switch c := cur.(type) {
		case map[string]interface{}:
			cur = c[seg]
		case []interface{}:
			i, err := strconv.Atoi(seg)
			if err != nil || i < 0 || i >= len(c) {
				return nil
			}
			cur = c[i]
		default:
			return nil
		}
	}
	return cur
}

// Drift changes the world between reads: late binding must observe it.
func (e *E) Drift() {
	t := e.R.T
	switch t.Weighted([]int{3, 2, 2, 1}, "drift-kind") {
	case 0: // merge a new value for a (possibly referenced) name into the root
		name := rootNames[t.Choose(len(rootNames), "drift-name")]
		if name == "l.1" {
			return // (a merge that names only index 1 pads index 0 with a nil, which replaces a primitive there)
		}
		old := e.root[name]
		var ns *setting
		if old != nil && old.lit != nil && (old.lit.K == VDict || old.lit.K == VList) {
			return
		}
		if t.Bool("drift-to-expr") {
			ns = &setting{expr: e.genTop(2)}
		} else {
			ns = &setting{lit: e.prim()}
		}
		in := e.layerToGo(map[string]*setting{name: ns})
		var err error
		if old != nil && old.expr != nil && strings.HasPrefix(name, "l.") {
			return // (replacing an expression goes through Remove, which would renumber the list)
		}
		if old != nil && old.expr != nil {
			// Merge evaluates the old value to decide whether both sides are containers; what that
			// does when a reference points into the subtree being merged is outside C02/C08
			// (DESIGN.md Appendix A), so an expression is replaced by remove + merge.
			e.R.MustComplete("Remove", func() { _, err = e.rootCfg.Remove(e.sp(name), -1, e.baseOpts...) })
			if err != nil {
				e.R.Fail("create", "Remove", "Remove(%q) failed: %v", name, err)
			}
		}
		e.R.MustComplete("Merge", func() { err = e.rootCfg.Merge(in, e.baseOpts...) })
		e.R.Tracef("drift: root.Merge(%v) = %v", describeLayer(map[string]*setting{name: ns}), err)
		if err != nil {
			e.R.Fail("create", "Merge", "Merge of a well-formed setting failed: %v", err)
		}
		e.root[name] = ns
		if i := strings.IndexByte(name, '.'); i >= 0 {
			if enc, ok := e.root[name[:i]]; ok && enc.lit != nil && enc.lit.K == VDict && len(enc.lit.D) == 0 {
				delete(e.root, name[:i])
			}
		}
		e.R.StateOps++
		e.R.Probe("varexp: value (re)defined after the setting that references it")
	case 1: // change an Env config
		if len(e.envs) == 0 {
			return
		}
		i := t.Choose(len(e.envs), "drift-env")
		name := envNames[t.Choose(len(envNames), "drift-env-name")]
		v := &Val{K: VStr, S: e.tok()}
		if err := e.envCfgs[i].SetString(name, -1, v.S, ucfg.PathSep(".")); err != nil {
			return
		}
		e.envs[i][name] = &setting{lit: v}
		e.R.Tracef("drift: env[%d].%s = %s", i, name, v.S)
		e.R.StateOps++
	case 2: // change or delete a resolver store entry
		if len(e.res) == 0 {
			return
		}
		i := t.Choose(len(e.res), "drift-res")
		name := resNames[t.Choose(len(resNames), "drift-res-name")]
		if t.Chance(1, 3, "drift-res-delete") {
			delete(e.res[i].store, name)
			e.R.Tracef("drift: resolver[%d] forgets %s", i, name)
		} else {
			e.res[i].store[name] = e.tok()
			e.R.Tracef("drift: resolver[%d].%s = %s", i, name, e.res[i].store[name])
		}
		e.R.StateOps++
	case 3: // remove a root setting
		names := e.settingNames()
		if len(names) == 0 {
			return
		}
		name := names[t.Choose(len(names), "drift-remove")]
		if strings.HasPrefix(name, "l.") {
			return // (removing a list element renumbers the others: not modelled here, see E1)
		}
		var err error
		e.R.MustComplete("Remove", func() { _, err = e.rootCfg.Remove(e.sp(name), -1, e.baseOpts...) })
		if err != nil {
			e.R.Fail("create", "Remove", "Remove(%q) failed: %v", name, err)
		}
		delete(e.root, name)
		if i := strings.IndexByte(name, '.'); i >= 0 {
			if _, more := e.subDict(e.root, name[:i]); !more {
				// the enclosing dictionary stays, empty
				e.root[name[:i]] = &setting{lit: &Val{K: VDict, D: map[string]*Val{}}}
			}
		}
		e.R.Tracef("drift: root.Remove(%s)", name)
		e.R.StateOps++
	}
}

// Run executes one E2 run.
func Run(r *sim.R, prop string, maxReads int) {
	e := &E{R: r, Prop: prop}
	r.Order = r.T.Weighted([]int{3, 2, 2}, "order-policy")
	if (prop == "C02" || prop == "C08") && r.T.Chance(1, 16, "env-configs-with-references") {
		r.NextStep()
		e.envRefs()
		return
	}
	if (prop == "C02" || prop == "C08") && r.T.Chance(1, 24, "list-text-with-reference-lookalikes") {
		r.NextStep()
		e.spliceData()
		return
	}
	e.Setup()
	n := 1 + r.T.Choose(maxReads, "n-reads")
	for i := 0; i < n; i++ {
		r.NextStep()
		if i > 0 && r.T.Chance(1, 3, "drift") {
			e.Drift()
		}
		e.Read()
		h := uint64(1469598103934665603)
		for _, c := range describeLayer(e.root) {
			h = (h ^ uint64(c)) * 1099511628211
		}
		r.State(h)
	}
}
