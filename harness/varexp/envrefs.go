package varexp

import (
	"fmt"
	"strings"

	ucfg "github.com/elastic/go-ucfg"
)

// envRefs: Env configs that hold references themselves. A reference is looked up in the tree
// the setting lives in first (C02): a setting of an Env config sees the Env config's own values,
// also when the same defaults - one shared *Config holding the expansion - were merged into the
// Env config and into the config that is read, and one call evaluates both copies.
//
// The scenario keeps clear of known finding O64 (names are told apart by path only while they
// are under evaluation): no name is evaluated in one tree while a setting of the same name is
// under evaluation in the other.
func (e *E) envRefs() {
	t := e.R.T
	vx := []ucfg.Option{ucfg.PathSep("."), ucfg.VarExp}
	h0, h1, h2 := e.tok(), e.tok(), e.tok()
	shared := t.Bool("defaults-are-one-shared-config")
	mkDefaults := func() *ucfg.Config {
		c, err := ucfg.NewFrom(map[string]interface{}{"home": h0, "data": "${home}/d", "pair": map[string]interface{}{"p": "<${home}>"}}, vx...)
		if err != nil {
			panic("harness: env defaults: " + err.Error())
		}
		return c
	}
	defaults := mkDefaults()
	into := func(c *ucfg.Config, v interface{}) {
		var err error
		e.R.MustComplete("Merge", func() { err = c.Merge(v, vx...) })
		if err != nil {
			e.failD("create", "Merge", nil, "Merge of a config with well-formed expressions failed: %v", err)
		}
	}
	env, cfg := ucfg.New(), ucfg.New()
	if shared {
		into(env, defaults)
		into(cfg, defaults)
	} else {
		into(env, mkDefaults())
		into(cfg, mkDefaults())
	}
	// which tree overrides home
	envHome, cfgHome := h0, h0
	switch t.Choose(3, "home-overridden-in") {
	case 0:
		cfgHome = h1
		into(cfg, map[string]interface{}{"home": h1})
	case 1:
		envHome = h2
		into(env, map[string]interface{}{"home": h2})
	default:
		cfgHome, envHome = h1, h2
		into(cfg, map[string]interface{}{"home": h1})
		into(env, map[string]interface{}{"home": h2})
	}
	// settings only the Env config has, referring to the shared expansions
	into(env, map[string]interface{}{"legacy": "${data}", "lpair": "${pair.p}"})
	own, viaEnv := "${data}", "${legacy}"
	wantOwn, wantEnv := cfgHome+"/d", envHome+"/d"
	if t.Bool("through-the-nested-setting") {
		own, viaEnv = "${pair.p}", "${lpair}"
		wantOwn, wantEnv = "<"+cfgHome+">", "<"+envHome+">"
	}
	out, want := own+" "+viaEnv, wantOwn+" "+wantEnv
	if t.Bool("env-copy-evaluated-first") {
		out, want = viaEnv+" "+own, wantEnv+" "+wantOwn
	}
	into(cfg, map[string]interface{}{"out": out})
	opts := append(append([]ucfg.Option{}, vx...), ucfg.Env(env))
	e.R.Probe("varexp: Env config holding references of its own")
	if shared {
		e.R.Probe("varexp: one config with expansions merged into the config read and into its Env config")
	}
	e.R.Tracef("defaults {home: %s, data: ${home}/d, pair.p: <${home}>} (one shared config: %v); cfg.home = %s, env.home = %s, env.legacy = ${data}, env.lpair = ${pair.p}; cfg.out = %q", h0, shared, cfgHome, envHome, out)
	var got string
	var err error
	how := t.Choose(3, "read-out-by")
	switch how {
	case 0:
		e.R.MustComplete("String", func() { got, err = cfg.String("out", -1, opts...) })
	case 1:
		var to struct {
			Home string `config:"home"`
			Data string `config:"data"`
			Out  string `config:"out"`
		}
		e.R.MustComplete("Unpack", func() { err = cfg.Unpack(&to, opts...) })
		got = to.Out
		if err == nil && (to.Home != cfgHome || to.Data != cfgHome+"/d") {
			e.failD("value", "Unpack", nil, "Unpack with an Env config holding references: home = %q, data = %q; late-bound substitution in the tree the settings live in gives %q, %q", to.Home, to.Data, cfgHome, cfgHome+"/d")
		}
	default:
		var m map[string]interface{}
		e.R.MustComplete("Unpack", func() { err = cfg.Unpack(&m, opts...) })
		got = fmt.Sprint(m["out"])
	}
	e.R.StateOps++
	op := []string{"String", "Unpack", "Unpack"}[how]
	if err != nil {
		if isCycle(err) {
			e.failD("false-cycle", op, nil, "%s of out = %q with an Env config holding references reports a cyclic reference, but no evaluation re-enters a reference: %v", op, out, err)
			return
		}
		e.failD("resolves", op, nil, "%s of out = %q with an Env config holding references failed (%v) although every reference resolves (to %q)", op, out, err, want)
		return
	}
	if got != want {
		e.failD("value", op, map[string]string{"got": got, "want": want},
			"%s of out = %q = %q; a reference is looked up first in the tree its setting lives in (cfg.home = %s, env.home = %s; %s is a setting of the Env config only): %q", op, out, got, cfgHome, envHome, strings.TrimSuffix(strings.TrimPrefix(viaEnv, "${"), "}"), want)
	}
}
