// Package varexp is engine E2: a config, its lookup environment (Env configs,
// resolver stack with per-read outages) and time (values drifting between
// reads), checked against an expression model written from the statements of
// C02 and C08. Expressions are generated as trees and rendered to text, so the
// oracle never parses.
package varexp

import (
	"strconv"
	"strings"
)

// Expr is a node of a generated expression tree.
type Expr interface {
	render(b *rb)
}

// rb is the text being rendered, with the path separator names are spelled with.
type rb struct {
	strings.Builder
	sep string
}

// Lit is a parse-inert literal token (letters, digits; never a keyword or number).
type Lit string

// Esc is an escape: "$$" (a dollar) or "$}" (a closing brace).
type Esc byte

// Ref is ${name}.
type Ref struct{ Name Name }

// Op is ${name:arg} (d), ${name:+arg} (a) or ${name:?arg} (e).
type Op struct {
	Kind byte
	Name Name
	Arg  Expr
}

// Cat is a concatenation.
type Cat []Expr

// Name is a reference name: a literal path, or a computed one containing a nested reference.
type Name struct {
	Path   string // literal dotted path, when Nested is nil
	Nested *Ref   // "${${x}}": the name is the value of another reference
}

func (l Lit) render(b *rb) { b.WriteString(string(l)) }
func (e Esc) render(b *rb) { b.WriteString("$" + string(rune(e))) }
func (n Name) render(b *rb) {
	if n.Nested != nil {
		n.Nested.render(b)
		return
	}
	b.WriteString(strings.ReplaceAll(n.Path, ".", b.sep))
}
func (r *Ref) render(b *rb) {
	b.WriteString("${")
	r.Name.render(b)
	b.WriteString("}")
}
func (o *Op) render(b *rb) {
	b.WriteString("${")
	o.Name.render(b)
	switch o.Kind {
	case 'd':
		b.WriteString(":")
	case 'a':
		b.WriteString(":+")
	case 'e':
		b.WriteString(":?")
	}
	o.Arg.render(b)
	b.WriteString("}")
}
func (c Cat) render(b *rb) {
	for _, e := range c {
		e.render(b)
	}
}

// Render gives the text of an expression, names spelled with "." as the path separator.
func Render(e Expr) string { return RenderSep(e, ".") }

// RenderSep gives the text of an expression, names spelled with the separator sep.
func RenderSep(e Expr, sep string) string {
	b := rb{sep: sep}
	e.render(&b)
	return b.String()
}

// ---------------------------------------------------------------------------------------------
// Values and outcomes of the model.

// VKind is the kind of a model value.
type VKind int

// Value kinds.
const (
	VStr VKind = iota
	VInt
	VBool
	VFloat
	VDict
	VList
)

// Val is a typed model value.
type Val struct {
	K VKind
	S string
	I int64
	B bool
	F float64
	D map[string]*Val
	L []*Val
	// Origin is set on a dictionary that stands for the settings below a root
	// path and whose contents have not been evaluated.
	Origin string
}

// EAny marks an outcome the statements leave open: anything is accepted.
const EAny EKind = 100

// EErr: the read must fail, with a kind the statements leave open (several
// settings fail for different reasons and any of them may be reported).
const EErr EKind = 101

// Text is the string conversion used when a value is spliced into text.
func (v *Val) Text() (string, bool) {
	switch v.K {
	case VStr:
		return v.S, true
	case VInt:
		return strconv.FormatInt(v.I, 10), true
	case VBool:
		return strconv.FormatBool(v.B), true
	case VFloat:
		return strconv.FormatFloat(v.F, 'g', -1, 64), true
	}
	return "", false
}

// Canon renders the value in the canonical generic form of package model.
func (v *Val) Canon() string {
	switch v.K {
	case VStr:
		return strconv.Quote(v.S)
	case VInt:
		return strconv.FormatInt(v.I, 10)
	case VNull:
		return "null"
	case VBool:
		return strconv.FormatBool(v.B)
	case VFloat:
		if v.F == float64(int64(v.F)) {
			return strconv.FormatInt(int64(v.F), 10)
		}
		return strconv.FormatFloat(v.F, 'g', -1, 64)
	case VList:
		if len(v.L) == 0 {
			return "null"
		}
		var s []string
		for _, e := range v.L {
			s = append(s, e.Canon())
		}
		return "[" + strings.Join(s, ",") + "]"
	case VDict:
		ks := make([]string, 0, len(v.D))
		for k := range v.D {
			ks = append(ks, k)
		}
		sortStrings(ks)
		var s []string
		for _, k := range ks {
			s = append(s, strconv.Quote(k)+":"+v.D[k].Canon())
		}
		if len(s) == 0 {
			return "null"
		}
		return "{" + strings.Join(s, ",") + "}"
	}
	return "?"
}

func sortStrings(s []string) {
	for i := 1; i < len(s); i++ {
		for j := i; j > 0 && s[j] < s[j-1]; j-- {
			s[j], s[j-1] = s[j-1], s[j]
		}
	}
}

// EKind is the kind of a failed evaluation.
type EKind int

// Error kinds (compared as kinds, never by message text).
const (
	EOK         EKind = iota
	ECycle            // a reference was re-entered while still being evaluated
	EUnresolved       // a name is not known to any layer
	EOper             // ${x:?m}: failed with message m
	EType             // a container where text is needed, and similar: any error is accepted
)

func (k EKind) String() string {
	if k == EAny {
		return "unspecified"
	}
	if k == EErr {
		return "some error"
	}
	return [...]string{"ok", "cyclic-reference error", "unresolved-reference error", "operator error", "type error"}[k]
}

// Outcome of evaluating something in the model.
type Outcome struct {
	V   *Val
	E   EKind
	Msg string // for EOper: the message
}
