package varexp

import (
	"sort"
	"strconv"
	"strings"
)

// expectedFlat computes what FlattenedKeys must return for the root config:
// every setting is a key of its own, except that a container is replaced by
// its entries, and a setting that evaluates to a container - a reference to a
// dictionary or list, directly or through other references - is replaced by
// the entries of that container, reported under the paths they have where
// they live. A reference that leads back into a container being listed is a
// key of its own (that is how the walk terminates, C08). ok=false when some
// setting's evaluation is left open by the statements (EAny, absorbed cycles).
func (e *E) expectedFlat() (keys []string, ok bool) {
	ok = true
	visiting := map[string]bool{}
	var entry func(path string, st *setting)
	var listRoot func(prefix string)

	literal := func(path string, v *Val) {
		switch v.K {
		case VDict:
			ks := make([]string, 0, len(v.D))
			for k := range v.D {
				ks = append(ks, k)
			}
			sort.Strings(ks)
			for _, k := range ks {
				keys = append(keys, path+"."+k)
			}
		case VList:
			for i := range v.L {
				keys = append(keys, path+"."+strconv.Itoa(i))
			}
		default:
			keys = append(keys, path)
		}
	}
	// home finds where a literal container lives
	home := func(v *Val) (string, bool) {
		for p, s := range e.root {
			if s.lit == v {
				return "root:" + p, true
			}
		}
		for i, l := range e.envs {
			for p, s := range l {
				if s.lit == v {
					return "env" + strconv.Itoa(i) + ":" + p, true
				}
			}
		}
		return "", false
	}
	listRoot = func(prefix string) {
		sub, _ := e.subDict(e.root, prefix)
		ks := make([]string, 0, len(sub))
		for k := range sub {
			ks = append(ks, k)
		}
		sort.Strings(ks)
		for _, k := range ks {
			entry(prefix+"."+k, sub[k])
		}
	}
	entry = func(path string, st *setting) {
		if st.lit != nil {
			literal(path, st.lit)
			return
		}
		e.begin(false)
		o, _ := e.modelOf(path)
		if e.sawAbsorb || o.E == EAny || o.E == EErr {
			ok = false
			return
		}
		if o.E != EOK || (o.V.K != VDict && o.V.K != VList) {
			keys = append(keys, path) // a primitive, or a setting that cannot be evaluated: a key of its own
			return
		}
		if o.V.Origin != "" {
			// the settings below a root path (the dictionary "s" or the list "l")
			h := "root:" + o.V.Origin
			if visiting[h] {
				keys = append(keys, path)
				return
			}
			visiting[h] = true
			listRoot(o.V.Origin)
			delete(visiting, h)
			return
		}
		h, found := home(o.V)
		if !found {
			// a dictionary assembled from an Env config's nested settings
			ok = false
			return
		}
		literal(h[strings.IndexByte(h, ':')+1:], o.V)
	}

	// the root dictionary
	tops := map[string]bool{}
	for p := range e.root {
		if i := strings.IndexByte(p, '.'); i >= 0 {
			tops[p[:i]] = true
		} else {
			tops[p] = true
		}
	}
	names := make([]string, 0, len(tops))
	for n := range tops {
		names = append(names, n)
	}
	sort.Strings(names)
	for _, n := range names {
		if st, plain := e.root[n]; plain {
			entry(n, st)
			continue
		}
		h := "root:" + n
		visiting[h] = true
		listRoot(n)
		delete(visiting, h)
	}
	sort.Strings(keys)
	return keys, ok
}
