package varexp

import (
	"reflect"
	"sort"
	"strconv"
	"strings"
	"time"
)

// Typed reads: the root is unpacked into a struct type drawn from the model's values, so that
// references are evaluated by the typed paths of Unpack (maps with typed elements, nested
// structs, typed slices) and not only into interface{}. One setting may be bound to two
// fields: evaluating a setting a second time in one call is not a cycle (C08).

var (
	tIface   = reflect.TypeOf((*interface{})(nil)).Elem()
	tString  = reflect.TypeOf("")
	tInt64   = reflect.TypeOf(int64(0))
	tBool    = reflect.TypeOf(false)
	tFloat64 = reflect.TypeOf(float64(0))
	tDur     = reflect.TypeOf(time.Duration(0))
)

// rootValue assembles the model's value of the whole root from the outcomes of its settings.
func rootValue(names []string, outs map[string]Outcome) map[string]*Val {
	top := map[string]*Val{}
	for _, p := range names {
		i := strings.IndexByte(p, '.')
		if i < 0 {
			top[p] = outs[p].V
			continue
		}
		d := top[p[:i]]
		if d == nil {
			d = &Val{K: VDict, D: map[string]*Val{}}
			top[p[:i]] = d
		}
		d.D[p[i+1:]] = outs[p].V
	}
	for k, v := range top {
		top[k] = listify(v)
	}
	return top
}

func sameKind(vs []*Val) bool {
	for _, v := range vs[1:] {
		if v.K != vs[0].K {
			return false
		}
	}
	return true
}

// typeFor draws a Go type able to hold the model value.
func (e *E) typeFor(v *Val, depth int) reflect.Type {
	t := e.R.T
	switch v.K {
	case VStr:
		return []reflect.Type{tString, tIface}[t.Choose(2, "typed-str")]
	case VInt:
		// (a number means seconds for a time.Duration target)
		if v.I > -1000000 && v.I < 1000000 {
			if ty := []reflect.Type{tInt64, tIface, tDur}[t.Choose(3, "typed-int")]; ty != tDur {
				return ty
			}
			e.R.Probe("varexp: a number unpacked into a time.Duration target")
			return tDur
		}
		return []reflect.Type{tInt64, tIface}[t.Choose(2, "typed-int")]
	case VBool:
		return []reflect.Type{tBool, tIface}[t.Choose(2, "typed-bool")]
	case VFloat:
		return []reflect.Type{tFloat64, tIface}[t.Choose(2, "typed-float")]
	case VList:
		if len(v.L) == 0 || depth > 4 {
			return reflect.SliceOf(tIface)
		}
		if sameKind(v.L) && v.L[0].K != VDict && v.L[0].K != VList && t.Bool("typed-list-elems") {
			// (one element type for all: drawn for the first, interface{} when the draw says so)
			return reflect.SliceOf(e.typeFor(v.L[0], depth+1))
		}
		return reflect.SliceOf(tIface)
	case VDict:
		if len(v.D) == 0 || depth > 4 {
			return reflect.MapOf(tString, tIface)
		}
		ks := make([]string, 0, len(v.D))
		vs := make([]*Val, 0, len(v.D))
		for k := range v.D {
			ks = append(ks, k)
		}
		sort.Strings(ks)
		for _, k := range ks {
			vs = append(vs, v.D[k])
		}
		switch t.Weighted([]int{2, 3, 2}, "typed-dict") {
		case 0:
			return reflect.MapOf(tString, tIface)
		case 1:
			fs := make([]reflect.StructField, len(ks))
			for i, k := range ks {
				fs[i] = reflect.StructField{Name: "F" + strconv.Itoa(i), Type: e.typeFor(vs[i], depth+1), Tag: reflect.StructTag(`config:"` + k + `"`)}
			}
			return reflect.StructOf(fs)
		default:
			if !sameKind(vs) {
				return reflect.MapOf(tString, tIface)
			}
			if vs[0].K == VDict || vs[0].K == VList {
				return reflect.MapOf(tString, []reflect.Type{reflect.MapOf(tString, tIface), reflect.SliceOf(tIface)}[boolInt(vs[0].K == VList)])
			}
			return reflect.MapOf(tString, e.typeFor(vs[0], depth+1))
		}
	}
	return tIface
}

// generic turns an unpacked typed value back into the generic form Unpack into interface{} gives.
func generic(v reflect.Value) interface{} {
	switch v.Kind() {
	case reflect.Interface:
		if v.IsNil() {
			return nil
		}
		return generic(v.Elem())
	case reflect.Struct:
		m := map[string]interface{}{}
		for i := 0; i < v.NumField(); i++ {
			name := v.Type().Field(i).Tag.Get("config")
			m[name] = generic(v.Field(i))
		}
		return m
	case reflect.Map:
		if v.IsNil() {
			return nil
		}
		m := map[string]interface{}{}
		for _, k := range v.MapKeys() {
			m[k.String()] = generic(v.MapIndex(k))
		}
		return m
	case reflect.Slice:
		if v.IsNil() {
			return nil
		}
		l := make([]interface{}, v.Len())
		for i := range l {
			l[i] = generic(v.Index(i))
		}
		return l
	}
	if v.Type() == tDur {
		return int64(v.Interface().(time.Duration) / time.Second)
	}
	return v.Interface()
}

// readTyped unpacks a choice of top-level settings into a drawn struct type.
func (e *E) readTyped() {
	t := e.R.T
	names := e.settingNames()
	outs := map[string]Outcome{}
	good := map[string]bool{}
	absorbed := false
	for _, p := range names {
		e.begin(true)
		o, _ := e.modelOf(p)
		outs[p] = o
		top := p
		if i := strings.IndexByte(p, '.'); i >= 0 {
			top = p[:i]
		}
		if _, seen := good[top]; !seen {
			good[top] = true
		}
		if o.E != EOK {
			good[top] = false
		}
		if e.sawAbsorb {
			absorbed = true
		}
	}
	if absorbed {
		return // (values left open, see readAll)
	}
	var okNames []string
	for _, p := range names {
		if i := strings.IndexByte(p, '.'); i >= 0 {
			p = p[:i]
		}
		if good[p] && (len(okNames) == 0 || okNames[len(okNames)-1] != p) {
			okNames = append(okNames, p)
		}
	}
	// (settingNames is sorted, so the settings of one top-level name are adjacent)
	if len(okNames) == 0 {
		return
	}
	var sel []string
	for _, p := range okNames {
		if t.Chance(2, 3, "typed-select") {
			sel = append(sel, p)
			if t.Chance(1, 3, "typed-twice") {
				sel = append(sel, p)
			}
		}
	}
	if len(sel) == 0 {
		sel = append(sel, okNames[0], okNames[0])
	}
	okOuts := map[string]Outcome{}
	var okSettings []string
	for _, p := range names {
		top := p
		if i := strings.IndexByte(p, '.'); i >= 0 {
			top = p[:i]
		}
		if good[top] {
			okOuts[p] = outs[p]
			okSettings = append(okSettings, p)
		}
	}
	vals := rootValue(okSettings, okOuts)
	fs := make([]reflect.StructField, len(sel))
	for i, p := range sel {
		fs[i] = reflect.StructField{Name: "F" + strconv.Itoa(i), Type: e.typeFor(vals[p], 0), Tag: reflect.StructTag(`config:"` + p + `"`)}
	}
	target := reflect.New(reflect.StructOf(fs))
	var err error
	e.R.MustComplete("Unpack", func() { err = e.rootCfg.Unpack(target.Interface(), e.opts...) })
	e.R.Tracef("Unpack(root) into %v = %v", target.Type().Elem(), err)
	e.R.Probe("varexp: root unpacked into a drawn struct type")
	if err != nil {
		if isCycle(err) {
			e.failD("false-cycle", "Unpack", map[string]string{"typed": "yes"}, "Unpack into %v reports a cyclic reference, but no selected setting's evaluation re-enters a reference: %v", target.Type().Elem(), err)
		}
		e.failD("resolves", "Unpack", map[string]string{"typed": "yes"}, "Unpack into %v failed (%v) although every selected setting resolves", target.Type().Elem(), err)
	}
	for i, p := range sel {
		got := canonOf(generic(target.Elem().Field(i)))
		if want := vals[p].Canon(); got != want {
			e.failD("value", "Unpack", map[string]string{"setting": p, "got": got, "want": want, "typed": "yes"},
				"Unpack into %v: field %d bound to setting %s = %s, late-bound substitution gives %s", target.Type().Elem(), i, p, got, want)
		}
	}
}
