package varexp

import (
	"fmt"
	"strings"

	ucfg "github.com/elastic/go-ucfg"
	"github.com/elastic/go-ucfg/diff"

	"harness/fp"
	"harness/model"
	"harness/sim"
)

// Scheduler runs f under several enumeration schedules and compares the
// (kind, data, shape) triples; it is provided by engine E4.
type Scheduler func(op string, detail map[string]string, kindsComparable bool, f func() (kind, data string, shape uint64))

// OrderCase is E4's family of cases on configs whose settings reference each
// other: the same read from identical initial states under K schedules.
func OrderCase(r *sim.R, k int, run Scheduler, errKind func(error) string) {
	e := &E{R: r, Prop: r.Prop}
	r.Order = sim.OrderSorted
	e.Setup()

	// what the expression model says about the whole config: how many settings
	// fail (and how), and whether a cycle is absorbed anywhere
	failing := 0
	kinds := map[EKind]bool{}
	absorbed := false
	altAbsorbed := false
	for _, p := range e.settingNames() {
		e.begin(true)
		o, _ := e.modelOf(p)
		if o.E != EOK {
			failing++
			kinds[o.E] = true
		}
		if e.sawAbsorb {
			absorbed = true
		}
		if e.sawAltAbsorb {
			altAbsorbed = true
		}
	}
	// known finding O63: a reference path that runs through a setting which is itself a reference
	// (${svc.port} with svc: "${defaults}") is walked while that reference may be under evaluation:
	// whether the walk succeeds depends on which setting the read evaluates first
	through := false
	for _, p := range e.settingNames() {
		if x := e.root[p].expr; x != nil && usesThroughName(x) {
			through = true
		}
	}
	detail := map[string]string{"absorbed_cycle": fmt.Sprint(absorbed), "alt_absorbed_cycle": fmt.Sprint(altAbsorbed), "overlap": "false", "through_name": fmt.Sprint(through)}
	if altAbsorbed && r.Avoid["O21"] {
		return
	}
	if through && r.Avoid["O63"] {
		return
	}
	if absorbed {
		r.Fault("cycle absorbed by a default / resolver inside a whole-config read")
	}
	if failing > 0 {
		r.Fault("config with a failing setting")
	}
	// with two settings failing for different reasons either may be reported
	kindsComparable := failing <= 1

	rebuild := func() {
		save := r.Order
		r.Order = sim.OrderSorted
		e.buildQuiet()
		r.Order = save
	}

	switch r.T.Weighted([]int{4, 2, 2, 1, 3}, "order-target") {
	case 4:
		// typed map targets: every setting is converted to the element type, bare references
		// to lists and single values alike (sibling settings share one struct-level scope)
		kind := r.T.Choose(3, "typed-map-kind")
		run("Unpack(typed map)", detail, false, func() (string, string, uint64) {
			rebuild()
			var err error
			var data string
			switch kind {
			case 0:
				var m map[string][]string
				err = e.rootCfg.Unpack(&m, e.opts...)
				data = fmt.Sprint(m)
			case 1:
				var m map[string]string
				err = e.rootCfg.Unpack(&m, e.opts...)
				data = fmt.Sprint(m)
			default:
				var m map[string][]interface{}
				err = e.rootCfg.Unpack(&m, e.opts...)
				data = fmt.Sprint(m)
			}
			if err != nil {
				return errKind(err), "", 0
			}
			return "ok", data, fp.Shape(e.rootCfg)
		})
	case 0:
		run("Unpack", detail, kindsComparable, func() (string, string, uint64) {
			rebuild()
			var m map[string]interface{}
			err := e.rootCfg.Unpack(&m, e.opts...)
			if err != nil {
				return errKind(err), "", 0
			}
			return "ok", model.CanonValue(m), fp.Shape(e.rootCfg)
		})
	case 1:
		run("FlattenedKeys", detail, true, func() (string, string, uint64) {
			rebuild()
			keys := e.rootCfg.FlattenedKeys(e.opts...)
			return "ok", strings.Join(keys, ","), fp.Shape(e.rootCfg)
		})
	case 2:
		run("CompareConfigs", detail, true, func() (string, string, uint64) {
			rebuild()
			other, err := ucfg.NewFrom(e.layerToGo(e.root), e.baseOpts...)
			if err != nil {
				return errKind(err), "", 0
			}
			other.Remove("a", -1, e.baseOpts...)
			d := diff.CompareConfigs(e.rootCfg, other, e.opts...)
			var parts []string
			for _, t := range []diff.Type{diff.Remove, diff.Add, diff.Keep} {
				ks := append([]string{}, d[t]...)
				sortStrings(ks)
				parts = append(parts, t.String()+":"+strings.Join(ks, ","))
			}
			return "ok", strings.Join(parts, " "), 0
		})
	case 3:
		// creation itself under the schedule (references are parsed, not evaluated)
		run("NewFrom", detail, true, func() (string, string, uint64) {
			c, err := ucfg.NewFrom(e.layerToGo(e.root), e.baseOpts...)
			if err != nil {
				return errKind(err), "", 0
			}
			return "ok", "", fp.Shape(c)
		})
	}
	r.StateOps += 2
}

// buildQuiet is build without trace output (the setup was traced once).
func (e *E) buildQuiet() {
	tr := e.R.Trace
	e.R.Trace = false
	defer func() { e.R.Trace = tr }()
	e.build()
}

// usesThroughName: does the expression hold a reference whose path runs through one of the
// settings a..e (genName)?
func usesThroughName(x Expr) bool {
	found := false
	var walk func(x Expr)
	name := func(n Name) {
		if n.Nested != nil {
			walk(n.Nested)
			return
		}
		if throughName(n.Path) {
			found = true
		}
	}
	walk = func(x Expr) {
		switch v := x.(type) {
		case *Ref:
			name(v.Name)
		case *Op:
			name(v.Name)
			walk(v.Arg)
		case Cat:
			for _, p := range v {
				walk(p)
			}
		}
	}
	walk(x)
	return found
}
