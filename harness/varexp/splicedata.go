package varexp

import (
	"fmt"

	ucfg "github.com/elastic/go-ucfg"
	"github.com/elastic/go-ucfg/parse"
)

// spliceData: what an evaluation produced is data. The text of a list that a resolver answers
// with, or that a string with an escaped reference evaluates to, is parsed into a list; text in
// it that looks like a reference is not evaluated again (C02: $$ escapes; C08: reading it ends).
func (e *E) spliceData() {
	t := e.R.T
	opts := []ucfg.Option{ucfg.PathSep("."), ucfg.VarExp}
	tail := e.tok()
	var in map[string]interface{}
	var want []string
	fromResolver := t.Bool("list-text-from-a-resolver")
	if fromResolver {
		name := []string{"X", "a"}[t.Choose(2, "resolver-name")] // "a": also the name of the setting itself
		text := "[${" + name + "}, " + tail + "]"
		if t.Bool("reference-last") {
			text = "[" + tail + ", ${" + name + "}]"
			want = []string{tail, "${" + name + "}"}
		} else {
			want = []string{"${" + name + "}", tail}
		}
		in = map[string]interface{}{"a": "${" + name + "}"}
		if name == "a" {
			in = map[string]interface{}{"a": "${a}"} // a cycle only the resolver absorbs
		}
		opts = append(opts, ucfg.Resolve(func(n string) (string, parse.Config, error) {
			if n == name {
				return text, parse.DefaultConfig, nil
			}
			return "", parse.DefaultConfig, ucfg.ErrMissing
		}))
		e.R.Tracef("a: %v, resolver answers %s with %q", in["a"], name, text)
	} else {
		other := []string{"a", "b", "zz"}[t.Choose(3, "escaped-name")] // itself, the other setting, a name nobody knows
		in = map[string]interface{}{"a": "[$${" + other + "}, ${b}]", "b": tail}
		want = []string{"${" + other + "}", tail}
		e.R.Tracef("a: %q, b: %q", in["a"], tail)
	}
	e.R.Probe("varexp: list text holding something that looks like a reference (resolver answer / escaped)")
	c, err := ucfg.NewFrom(in, opts...)
	if err != nil {
		e.failD("create", "NewFrom", nil, "NewFrom failed on a config with well-formed expressions: %v", err)
		return
	}
	var got []string
	op := "Unpack"
	switch t.Choose(3, "read-list-by") {
	case 0:
		var out map[string]interface{}
		e.R.MustComplete(op, func() { err = c.Unpack(&out, opts...) })
		if l, ok := out["a"].([]interface{}); ok {
			for _, x := range l {
				got = append(got, fmt.Sprint(x))
			}
		}
	case 1:
		var typed struct {
			A []string `config:"a"`
		}
		e.R.MustComplete(op, func() { err = c.Unpack(&typed, opts...) })
		got = typed.A
	default:
		op = "CountField"
		var n int
		e.R.MustComplete(op, func() { n, err = c.CountField("a", opts...) })
		if err == nil && n != len(want) {
			e.failD("value", op, nil, "CountField of a = %d, the list the text parses to has %d entries (%v)", n, len(want), want)
		}
		got = want
	}
	e.R.StateOps++
	if err != nil {
		if isCycle(err) {
			e.failD("false-cycle", op, nil, "%s reports a cyclic reference, but text an evaluation produced is data and is not evaluated again (expected %v): %v", op, want, err)
			return
		}
		e.failD("resolves", op, nil, "%s failed (%v) although the text parses to the list %v", op, err, want)
		return
	}
	if fmt.Sprint(got) != fmt.Sprint(want) {
		e.failD("value", op, map[string]string{"got": fmt.Sprint(got), "want": fmt.Sprint(want)}, "%s of a = %v; the text parses to the list %v (what looks like a reference in it is data)", op, got, want)
	}
}
