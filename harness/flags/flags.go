// Package flags is engine E6: histories of FlagValue.Set calls with malformed
// arguments and loader faults at any position, checked against the flag model
// (config, firstError) built from the library's own primitives (C19 is a
// refinement statement about how the flag layer composes NewFrom, Merge and
// parse.Value with the options given at construction).
package flags

import (
	"encoding/json"
	"errors"
	goflag "flag"
	"fmt"
	"io"
	"reflect"
	"sort"
	"strconv"
	"strings"

	ucfg "github.com/elastic/go-ucfg"
	"github.com/elastic/go-ucfg/cfgutil"
	"github.com/elastic/go-ucfg/flag"
	"github.com/elastic/go-ucfg/parse"

	"harness/model"
	"harness/sim"
)

type optSet struct {
	opts []ucfg.Option
	desc []string
	sep  bool
}

func genOpts(r *sim.R) optSet {
	t := r.T
	var o optSet
	if t.Choose(5, "opt-sep") != 0 {
		o.opts = append(o.opts, ucfg.PathSep("."))
		o.desc = append(o.desc, "PathSep(.)")
		o.sep = true
	}
	if t.Chance(1, 4, "opt-varexp") {
		o.opts = append(o.opts, ucfg.VarExp)
		o.desc = append(o.desc, "VarExp")
	}
	switch t.Choose(6, "opt-policy") {
	case 1:
		o.opts = append(o.opts, ucfg.AppendValues)
		o.desc = append(o.desc, "AppendValues")
	case 2:
		o.opts = append(o.opts, ucfg.PrependValues)
		o.desc = append(o.desc, "PrependValues")
	case 3:
		o.opts = append(o.opts, ucfg.ReplaceValues)
		o.desc = append(o.desc, "ReplaceValues")
	case 4:
		o.opts = append(o.opts, ucfg.ReplaceArrValues)
		o.desc = append(o.desc, "ReplaceArrValues")
	case 5:
		if o.sep {
			n := names[t.Choose(len(names), "opt-field")]
			o.opts = append(o.opts, ucfg.FieldAppendValues(n))
			o.desc = append(o.desc, "FieldAppendValues("+n+")")
		}
	}
	if t.Chance(1, 5, "opt-meta") {
		o.opts = append(o.opts, ucfg.MetaData(ucfg.Meta{Source: "cmdline"}))
		o.desc = append(o.desc, "MetaData")
	}
	return o
}

var names = []string{"a", "b", "c"}

func genKey(r *sim.R) string {
	t := r.T
	n := 1 + t.Choose(3, "key-len")
	var parts []string
	for i := 0; i < n; i++ {
		if (i > 0 && t.Chance(1, 3, "key-idx")) || (i == 0 && t.Chance(1, 10, "key-starts-with-index")) {
			parts = append(parts, strconv.Itoa(t.Choose(3, "key-i")))
		} else {
			parts = append(parts, names[t.Choose(len(names), "key-name")])
		}
	}
	return strings.Join(parts, ".")
}

// genValue renders a value in one of the syntaxes parse.Value accepts.
func genValue(r *sim.R, ctr *int, depth int) string {
	t := r.T
	*ctr++
	n := *ctr
	w := []int{4, 3, 1, 1, 2, 2, 1}
	if depth >= 2 {
		w[4], w[5] = 0, 0
	}
	if depth == 0 && t.Chance(1, 12, "val-with-equals") {
		// the value starts after the first '=': it may hold more of them
		return []string{"http://h/?pretty=true&n=" + strconv.Itoa(n), "k=v" + strconv.Itoa(n), "\"a == b\"", "[zone=a, " + strconv.Itoa(n) + "]", "=="}[t.Choose(5, "equals-shape")]
	}
	switch t.Weighted(w, "val-kind") {
	case 0:
		return strconv.Itoa(100 + n)
	case 1:
		return "v" + strconv.Itoa(n)
	case 2:
		return []string{"true", "false", "null", "NaN", "+Inf"}[t.Choose(5, "val-kw")]
	case 3:
		return strconv.Quote("q " + strconv.Itoa(n))
	case 4:
		k := 1 + t.Choose(3, "val-arr-len")
		var el []string
		for i := 0; i < k; i++ {
			el = append(el, genValue(r, ctr, depth+1))
		}
		return "[" + strings.Join(el, ",") + "]"
	case 5:
		k := 1 + t.Choose(2, "val-obj-len")
		var el []string
		for i := 0; i < k; i++ {
			el = append(el, names[t.Choose(len(names), "val-obj-key")]+": "+genValue(r, ctr, depth+1))
		}
		return "{" + strings.Join(el, ",") + "}"
	default:
		return strconv.FormatFloat(float64(n)+0.25, 'g', -1, 64)
	}
}

// malformed values: legal *inputs* to Set, which must be rejected, not crash.
var malformed = []string{`"abc`, `'abc`, `[1,2`, `{a: 1`, `[`, `{`, `[a,`, `{a:`, `{a`, `[1,[2`, `{a: [1}`}

var unsettable = []string{"${a", "${}", "x${b", "${a:", "{b.c: 1, b: {c: 2}}", "{a.b: 1, a: 2}", "{a: {b: 1}, a.b: 2}"}

type fileEntry struct {
	tree   *model.Node
	ioErr  bool
	nilCfg bool
}

// collectorRun drives cfgutil.Collector directly (C19: "Collector keeps config, first error and
// options; Add merges"): a history of Add(cfg, err) calls with loader errors, nil configs and
// configs that fail to merge at any position.
func collectorRun(r *sim.R, maxAdds int) {
	t := r.T
	o := genOpts(r)
	var def *ucfg.Config
	mcfg := ucfg.New()
	if t.Chance(1, 3, "with-default") {
		init := map[string]interface{}{"a": map[string]interface{}{"b": uint64(1)}, "c": []interface{}{uint64(1), uint64(2)}}
		def, _ = ucfg.NewFrom(init, o.opts...)
		mcfg, _ = ucfg.NewFrom(init, o.opts...)
	}
	var c *cfgutil.Collector
	r.MustComplete("NewCollector", func() { c = cfgutil.NewCollector(def, o.opts...) })
	r.Tracef("collector(default=%v opts=%v)", def != nil, o.desc)
	if got := c.GetOptions(); len(got) != len(o.opts) {
		r.Fail("accumulate", "GetOptions", "GetOptions() returns %d options, the collector was created with %d", len(got), len(o.opts))
	}
	var firstErr error
	ctr := 0
	n := 1 + t.Choose(maxAdds, "n-adds")
	for i := 0; i < n; i++ {
		r.NextStep()
		var cfg *ucfg.Config
		var lerr error
		desc := ""
		switch t.Weighted([]int{6, 1, 1, 1}, "add-kind") {
		case 0:
			arg := genKey(r) + "=" + genValue(r, &ctr, 0)
			cfg, lerr = kvModel(arg, true, o)
			desc = arg
			if lerr != nil {
				cfg = nil
			}
		case 1:
			lerr = errors.New("load error " + strconv.Itoa(i))
			desc = "error"
			r.Fault("loader error handed to the collector")
		case 2:
			desc = "nil config"
			r.Fault("nil config handed to the collector")
		case 3:
			// a config together with an error: the error wins, the config is not merged
			cfg, _ = ucfg.NewFrom(map[string]interface{}{"zz": uint64(1)}, o.opts...)
			lerr = errors.New("partial load " + strconv.Itoa(i))
			desc = "config + error"
			r.Fault("config handed to the collector together with an error")
		}
		var got error
		r.MustComplete("Add", func() { got = c.Add(cfg, lerr) })
		r.Tracef("Add(%s) = %v", desc, got)
		// model: after the first error nothing is merged and that error is returned
		var want error
		switch {
		case firstErr != nil:
			want = firstErr
			r.Probe("flags: Set after the first error")
		case lerr != nil:
			firstErr, want = lerr, lerr
		case cfg != nil:
			if err := mcfg.Merge(cfg, o.opts...); err != nil {
				firstErr, want = err, err
			} else {
				r.StateOps++
			}
		}
		if (got == nil) != (want == nil) || (got != nil && got.Error() != want.Error()) {
			r.Fail("first-error", "Add", "Add(%s) returned %v, sequential semantics give %v", desc, got, want)
		}
		gc, ge := c.Get()
		if gc != c.Config() || ge != c.Error() {
			r.Fail("accumulate", "Get", "Get() disagrees with Config() / Error()")
		}
		if (c.Error() == nil) != (firstErr == nil) || (firstErr != nil && c.Error().Error() != firstErr.Error()) {
			r.Fail("first-error", "Add", "after Add(%s): Error() = %v, the first error was %v", desc, c.Error(), firstErr)
		}
		var g, w string
		var gerr, werr error
		r.MustComplete("Config.Unpack", func() { g, gerr = unpack(c.Config(), o.opts) })
		w, werr = unpack(mcfg, o.opts)
		if (gerr == nil) != (werr == nil) || g != w {
			r.FailD("accumulate", "Add", map[string]string{"got": g, "want": w}, "after Add(%s): Config() unpacks to %s (%v); merging in order with the collector's options gives %s (%v)", desc, g, gerr, w, werr)
		}
		if def != nil && c.Config() != def {
			r.Fail("accumulate", "Add", "the collector does not write through to the config it was given")
		}
	}
}

// Run executes one flag history.
func Run(r *sim.R, maxSets int) {
	t := r.T
	if t.Chance(1, 6, "collector-direct") {
		collectorRun(r, maxSets)
		return
	}
	o := genOpts(r)
	files := t.Chance(1, 3, "files-flavour")
	autoBool := !t.Chance(1, 4, "no-autobool")
	var def *ucfg.Config
	var mcfg *ucfg.Config // model config
	if t.Chance(1, 3, "with-default") {
		init := map[string]interface{}{"a": map[string]interface{}{"b": uint64(1)}, "c": []interface{}{uint64(1), uint64(2)}}
		def, _ = ucfg.NewFrom(init, o.opts...)
		mcfg, _ = ucfg.NewFrom(init, o.opts...)
		r.Probe("flags: default config shared with the caller")
	} else {
		mcfg = ucfg.New()
	}
	// the caller's option slice has spare capacity and a longer view of the same array exists
	// (options kept in one array, handed out as sub-slices): nothing may write into it
	backing := make([]ucfg.Option, len(o.opts), len(o.opts)+3)
	copy(backing, o.opts)
	longer := append(backing, ucfg.PathSep("."), ucfg.VarExp)
	watch := optionPointers(longer)
	o.opts = backing
	var fv *flag.FlagValue
	var table map[string]fileEntry
	var loaderCalls int
	loaders := map[string]flag.FileLoader{}
	if files {
		table = map[string]fileEntry{}
		mk := func(tag string) flag.FileLoader {
			return func(name string, opts ...ucfg.Option) (*ucfg.Config, error) {
				loaderCalls++
				e, ok := table[name]
				if !ok || e.ioErr {
					return nil, errors.New("simulated I/O error reading " + name + " via " + tag)
				}
				if e.nilCfg {
					return nil, nil
				}
				return ucfg.NewFrom(render(e.tree), opts...)
			}
		}
		loaders[".yml"] = mk("yml")
		if t.Bool("default-loader") {
			loaders[""] = mk("default")
		}
		r.MustComplete("NewFlagFiles", func() { fv = flag.NewFlagFiles(def, loaders, o.opts...) })
	} else {
		r.MustComplete("NewFlagKeyValue", func() { fv = flag.NewFlagKeyValue(def, autoBool, o.opts...) })
	}
	r.Tracef("flag(files=%v autoBool=%v default=%v opts=%v)", files, autoBool, def != nil, o.desc)

	// some histories go through flag.FlagSet, as a command line does
	viaFlagSet := t.Chance(1, 4, "via-flagset")
	var fs *goflag.FlagSet
	if viaFlagSet {
		fs = goflag.NewFlagSet("sim", goflag.ContinueOnError)
		fs.SetOutput(io.Discard)
		fs.Var(fv, "c", "config setting")
		r.Probe("flags: history driven through flag.FlagSet.Parse")
	}
	checkOptions(r, fv, o)

	var firstErr error // model
	var implFirst error
	ctr := 0
	n := 1 + t.Choose(maxSets, "n-sets")
	for i := 0; i < n; i++ {
		r.NextStep()
		var arg string
		// the model's view of this argument
		var mCfg *ucfg.Config
		var mErr error // internal error (latched)
		var mRep error // error Set reports
		if files {
			arg, mCfg, mErr = genFileArg(r, table, loaders, o, &ctr)
		} else {
			arg = genKVArg(r, &ctr)
			mCfg, mErr = kvModel(arg, autoBool, o)
			mRep = mErr
		}
		var got error
		if viaFlagSet {
			// through the standard flag package: -c <arg>, one occurrence per Parse
			r.MustComplete("FlagSet.Parse", func() { got = fs.Parse([]string{"-c", arg}) })
			r.Tracef("FlagSet.Parse(-c %q) = %v", arg, got)
		} else {
			r.MustComplete("Set", func() { got = fv.Set(arg) })
			r.Tracef("Set(%q) = %v", arg, got)
		}
		if (got == nil) != (mRep == nil) {
			r.Fail("set-result", "Set", "Set(%q) returned %v, sequential semantics give %v", arg, got, mRep)
		}
		// model transition
		if firstErr == nil {
			if mErr != nil {
				firstErr = mErr
				r.Fault("failing flag argument")
				if i < n-1 {
					r.Probe("flags: failing argument followed by further arguments")
				}
			} else if mCfg != nil {
				if err := mcfg.Merge(mCfg, o.opts...); err != nil {
					firstErr = err
					r.Fault("merge of flag argument fails")
				} else {
					r.StateOps++
				}
			}
		} else {
			r.Probe("flags: Set after the first error")
		}
		// observations
		ierr := fv.Error()
		if (ierr == nil) != (firstErr == nil) {
			r.Fail("first-error", "Set", "after Set(%q): Error() = %v, sequential semantics give %v", arg, ierr, firstErr)
		}
		if ierr != nil {
			if implFirst == nil {
				implFirst = ierr
			} else if ierr != implFirst && ierr.Error() != implFirst.Error() {
				r.Fail("first-error", "Set", "the collector stopped reporting its first error: was %v, now %v", implFirst, ierr)
			}
		}
		compare(r, fv, def, mcfg, o, arg)
		if now := optionPointers(longer); now != watch {
			r.Fail("accumulate", "Set", "Set(%q) wrote into the option array of its caller (a longer view of the slice the flag was created with changed)", arg)
		}
	}
	_ = loaderCalls
}

// optionPointers identifies the Option values of a slice (functions cannot be compared otherwise).
func optionPointers(opts []ucfg.Option) string {
	var b strings.Builder
	for _, o := range opts {
		fmt.Fprintf(&b, "%x,", reflect.ValueOf(o).Pointer())
	}
	return b.String()
}

func checkOptions(r *sim.R, fv *flag.FlagValue, o optSet) {
	// FlagValue has no accessor for the collector; the options govern String()
	// and merging, which compare() observes. Nothing to do here directly.
	_ = reflect.TypeOf(fv)
}

func genKVArg(r *sim.R, ctr *int) string {
	t := r.T
	switch t.Weighted([]int{10, 2, 2, 3, 1, 2, 1}, "arg-kind") {
	case 6:
		// the empty argument (-D ""): a bare key like any other, its name is the empty string
		r.Probe("flags: the empty argument")
		return ""
	case 5:
		// a value parse.Value accepts, but which cannot become a setting under every set of
		// options: a malformed reference (VarExp), one setting spelled twice (PathSep)
		r.Fault("flag value that parses but may not become a setting")
		return genKey(r) + "=" + unsettable[t.Choose(len(unsettable), "unsettable")]
	case 1:
		return genKey(r) // bare key
	case 2:
		return genKey(r) + "=" // empty value: ignored
	case 3:
		r.Fault("malformed flag value")
		return genKey(r) + "=" + malformed[t.Choose(len(malformed), "malformed")]
	case 4:
		return "=" + genValue(r, ctr, 0) // empty key
	}
	return genKey(r) + "=" + genValue(r, ctr, 0)
}

// kvModel: what one key=value argument means, from the statement of C19,
// using the library's own building blocks.
func kvModel(arg string, autoBool bool, o optSet) (*ucfg.Config, error) {
	var key string
	var val interface{}
	args := strings.SplitN(arg, "=", 2)
	if len(args) < 2 {
		if !autoBool {
			return nil, fmt.Errorf("argument %q has no value", arg)
		}
		key, val = arg, true
	} else {
		key = args[0]
		if args[1] == "" {
			return nil, nil
		}
		v, err := safeParse(args[1])
		if err != nil {
			return nil, err
		}
		val = v
	}
	c, err := safeNewFrom(map[string]interface{}{key: val}, o.opts)
	if err != nil {
		return nil, err
	}
	return c, nil
}

func safeParse(s string) (v interface{}, err error) {
	defer func() {
		if p := recover(); p != nil {
			err = fmt.Errorf("parse.Value panicked: %v", p)
		}
	}()
	return parse.Value(s)
}

func safeNewFrom(in interface{}, opts []ucfg.Option) (c *ucfg.Config, err error) {
	defer func() {
		if p := recover(); p != nil {
			err = fmt.Errorf("NewFrom panicked: %v", p)
		}
	}()
	return ucfg.NewFrom(in, opts...)
}

func render(n *model.Node) interface{} {
	switch n.K {
	case model.KSub:
		if len(n.A) > 0 {
			var l []interface{}
			for _, c := range n.A {
				l = append(l, render(c))
			}
			return l
		}
		m := map[string]interface{}{}
		for _, k := range n.Keys() {
			m[k] = render(n.D[k])
		}
		return m
	case model.KInt:
		return n.U
	case model.KStr:
		return n.S
	}
	return nil
}

func genFileArg(r *sim.R, table map[string]fileEntry, loaders map[string]flag.FileLoader, o optSet, ctr *int) (string, *ucfg.Config, error) {
	t := r.T
	*ctr++
	ext := []string{".yml", ".json", ""}[t.Choose(3, "file-ext")]
	name := "f" + strconv.Itoa(*ctr) + ext
	kind := t.Weighted([]int{6, 2, 1, 1}, "file-kind")
	var e fileEntry
	// the same file may be named again later on the command line: it is loaded and merged again
	var loadable []string
	for n, fe := range table {
		if fe.tree != nil {
			loadable = append(loadable, n)
		}
	}
	sort.Strings(loadable)
	if len(loadable) > 0 && t.Chance(1, 3, "file-again") {
		name = loadable[t.Choose(len(loadable), "which-file-again")]
		ext = ""
		if i := strings.LastIndexByte(name, '.'); i >= 0 {
			ext = name[i:]
		}
		e = table[name]
		kind = 0
		r.Probe("flags: a file named a second time")
	}
	switch kind {
	case 0:
		if e.tree != nil {
			break // (named again)
		}
		d := model.Dict()
		k := 1 + t.Choose(2, "file-keys")
		for i := 0; i < k; i++ {
			*ctr++
			key := names[t.Choose(len(names), "file-key")]
			if t.Bool("file-list") {
				l := model.List()
				l.Push(model.Uint(uint64(100 + *ctr)))
				d.SetD(key, l)
			} else {
				d.SetD(key, model.Str("s"+strconv.Itoa(*ctr)))
			}
		}
		e.tree = d
		table[name] = e
	case 1:
		e.ioErr = true
		table[name] = e
		r.Fault("file loader I/O error")
	case 2:
		e.nilCfg = true
		table[name] = e
		r.Fault("file loader returns nil config")
	case 3:
		// file not in the table at all
		r.Fault("file loader: unknown file")
	}
	// model
	l := loaders[ext]
	if l == nil {
		l = loaders[""]
	}
	if l == nil {
		r.Fault("no loader for extension")
		return name, nil, fmt.Errorf("no loader for %s", name)
	}
	switch kind {
	case 0:
		c, err := ucfg.NewFrom(render(e.tree), o.opts...)
		return name, c, err
	case 2:
		return name, nil, nil
	}
	return name, nil, errors.New("load error")
}

func unpack(c *ucfg.Config, opts []ucfg.Option) (string, error) {
	var m map[string]interface{}
	if err := c.Unpack(&m, opts...); err != nil {
		return "", err
	}
	return model.CanonValue(m), nil
}

func compare(r *sim.R, fv *flag.FlagValue, def, mcfg *ucfg.Config, o optSet, arg string) {
	var got, want string
	var gerr, werr error
	r.MustComplete("Config.Unpack", func() { got, gerr = unpack(fv.Config(), o.opts) })
	want, werr = unpack(mcfg, o.opts)
	if (gerr == nil) != (werr == nil) || got != want {
		r.FailD("accumulate", "Set", map[string]string{"got": got, "want": want}, "after Set(%q): Config() unpacks to %s (%v); merging each setting in order with the flag's options gives %s (%v)", arg, got, gerr, want, werr)
	}
	if def != nil && fv.Config() != def {
		r.Fail("accumulate", "Set", "the flag does not write through to the default config it was given")
	}
	// settings whose key starts with an index live in the list part of the root, which a map does not show
	gn, _ := fv.Config().CountField("")
	wn, _ := mcfg.CountField("")
	if gn != wn || fv.Config().IsArray() != mcfg.IsArray() {
		r.Fail("accumulate", "Set", "after Set(%q): the root holds %d entries (IsArray %v); merging each setting in order gives %d (IsArray %v)", arg, gn, fv.Config().IsArray(), wn, mcfg.IsArray())
	}
	if mcfg.IsArray() {
		var gl, wl []interface{}
		var e1, e2 error
		r.MustComplete("Config.Unpack", func() { e1 = fv.Config().Unpack(&gl, o.opts...) })
		e2 = mcfg.Unpack(&wl, o.opts...)
		if g, w := model.CanonValue(gl), model.CanonValue(wl); (e1 == nil) != (e2 == nil) || g != w {
			r.FailD("accumulate", "Set", map[string]string{"got": g, "want": w}, "after Set(%q): the list part of the root unpacks to %s (%v); merging each setting in order gives %s (%v)", arg, g, e1, w, e2)
		}
	}
	// String() is the JSON of the accumulated config when it can be rendered (no NaN, every
	// reference resolves); in any case it is a read: it changes neither Error() nor what later
	// arguments do (checked by the next compare)
	before := fv.Error()
	var s string
	r.MustComplete("String", func() { s = fv.String() })
	if after := fv.Error(); (before == nil) != (after == nil) {
		r.Fail("first-error", "String", "String() changed Error() from %v to %v: a value that can not be rendered is not a failed argument", before, after)
	}
	if werr == nil && before == nil {
		var m map[string]interface{}
		mcfg.Unpack(&m, o.opts...)
		if js, jerr := json.Marshal(m); jerr == nil && s != string(js) {
			r.FailD("string", "String", map[string]string{"got": s, "want": string(js)}, "String() = %s, the accumulated config is %s", s, js)
		}
	}
}
