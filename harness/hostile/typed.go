package hostile

import (
	"fmt"
	"reflect"
	"regexp"
	"strconv"
	"time"

	ucfg "github.com/elastic/go-ucfg"

	"harness/sim"
)

// Generated Unpack targets: C07 quantifies over "arbitrary (even unsupported) unpack target
// types". The fixed list in targets() holds the oddities somebody thought of; this family draws
// the type itself - any nesting of pointers, slices, arrays, maps (with string, named-string,
// integer and interface keys), interfaces holding values of any of these, and structs with
// every tag option and built-in validator - pre-fills a value of it, and unpacks a config whose
// shape follows the type, loosely. The monitors alone judge: no panic, no fatal error, the call
// returns.

// KeyS is a named string type (map keys).
type KeyS string

// NamedInt is a named integer type.
type NamedInt int

// Named primitive types of the other kinds.
type (
	NamedBool  bool
	NamedFloat float32
	NamedUint  uint16
	NamedDur   time.Duration
)

// Named composite types, and interface types that ask for an Unpack method.
type (
	NamedPtr    *Init
	NamedPtrInt *int
	NamedSlice  []int
	NamedMap    map[string]int
	NamedArr    [2]int
	NamedIface  interface{}
	CfgUnpacker interface {
		Unpack(*ucfg.Config) error
	}
	StrUnpacker interface{ Unpack(string) error }
	AnyUnpacker interface{ Unpack(interface{}) error }
)

type cfgU struct{ N int }

func (u *cfgU) Unpack(c *ucfg.Config) error { u.N++; return nil }

type strU struct{ S string }

func (u *strU) Unpack(s string) error { u.S = s; return nil }

type anyU struct{ V interface{} }

func (u *anyU) Unpack(v interface{}) error { u.V = v; return nil }

// Init has defaults.
type Init struct {
	A int `config:"a"`
	B []int
}

// InitDefaults sets them.
func (i *Init) InitDefaults() { i.A = 3; i.B = []int{1} }

// Val validates.
type Val struct{ N int }

// Validate accepts everything but 13.
func (v Val) Validate() error {
	if v.N == 13 {
		return fmt.Errorf("unlucky")
	}
	return nil
}

var baseTypes = []reflect.Type{
	reflect.TypeOf(int(0)), reflect.TypeOf(uint8(0)), reflect.TypeOf(float64(0)), reflect.TypeOf(""), reflect.TypeOf(false),
	reflect.TypeOf(time.Duration(0)), reflect.TypeOf((*interface{})(nil)).Elem(), reflect.TypeOf(KeyS("")), reflect.TypeOf(NamedInt(0)),
	reflect.TypeOf((*ucfg.Config)(nil)), reflect.TypeOf(ucfg.Config{}), reflect.TypeOf(regexp.Regexp{}), reflect.TypeOf(Init{}), reflect.TypeOf(Val{}),
	reflect.TypeOf(make(chan int)), reflect.TypeOf(func() {}), reflect.TypeOf(complex64(0)), reflect.TypeOf(int64(0)), reflect.TypeOf(uint64(0)),
	reflect.TypeOf(NamedBool(false)), reflect.TypeOf(NamedFloat(0)), reflect.TypeOf(NamedUint(0)), reflect.TypeOf(NamedDur(0)),
	reflect.TypeOf((*ucfg.Initializer)(nil)).Elem(), reflect.TypeOf((*ucfg.Validator)(nil)).Elem(), reflect.TypeOf((*error)(nil)).Elem(),
	reflect.TypeOf(NamedPtr(nil)), reflect.TypeOf(NamedPtrInt(nil)), reflect.TypeOf(NamedSlice(nil)), reflect.TypeOf(NamedMap(nil)), reflect.TypeOf(NamedArr{}),
	reflect.TypeOf((*NamedIface)(nil)).Elem(), reflect.TypeOf((*CfgUnpacker)(nil)).Elem(), reflect.TypeOf((*StrUnpacker)(nil)).Elem(), reflect.TypeOf((*AnyUnpacker)(nil)).Elem(),
	reflect.TypeOf(cfgU{}), reflect.TypeOf(strU{}), reflect.TypeOf(anyU{}),
}

var keyTypes = []reflect.Type{reflect.TypeOf(""), reflect.TypeOf(""), reflect.TypeOf(KeyS("")), reflect.TypeOf(int(0)), reflect.TypeOf((*interface{})(nil)).Elem()}

var validateTags = []string{"", "", "nonzero", "required", "positive", "min=1", "max=5", "min=1s", "nonzero,max=3", "required,min=2"}
var configOpts = []string{"", "", "", ",replace", ",append", ",prepend", ",ignore"}

func genType(r *sim.R, depth int) reflect.Type {
	t := r.T
	w := []int{6, 2, 2, 1, 2, 3}
	if depth >= 3 {
		w = []int{1, 0, 0, 0, 0, 0}
	}
	switch t.Weighted(w, "type-kind") {
	case 1:
		return reflect.PtrTo(genType(r, depth+1))
	case 2:
		return reflect.SliceOf(genType(r, depth+1))
	case 3:
		return reflect.ArrayOf(t.Choose(3, "array-len"), genType(r, depth+1))
	case 4:
		return reflect.MapOf(keyTypes[t.Choose(len(keyTypes), "key-type")], genType(r, depth+1))
	case 5:
		n := 1 + t.Choose(3, "n-fields")
		var fs []reflect.StructField
		inline := false
		for i := 0; i < n; i++ {
			ft := genType(r, depth+1)
			name := string(rune('a' + i))
			tag := `config:"` + name + configOpts[t.Choose(len(configOpts), "config-opt")] + `"`
			if !inline && t.Chance(1, 8, "inline") {
				tag = `config:",inline"`
				inline = true
			}
			if v := validateTags[t.Choose(len(validateTags), "validate-tag")]; v != "" {
				tag += ` validate:"` + v + `"`
			}
			fs = append(fs, reflect.StructField{Name: "F" + strconv.Itoa(i), Type: ft, Tag: reflect.StructTag(tag)})
		}
		return reflect.StructOf(fs)
	}
	return baseTypes[t.Choose(len(baseTypes), "base-type")]
}

// fill pre-fills v (settable) with a default, or leaves the zero value.
func fill(r *sim.R, v reflect.Value, depth int) {
	t := r.T
	if depth > 4 || !v.CanSet() || t.Chance(1, 3, "leave-zero") {
		return
	}
	switch v.Kind() {
	case reflect.Int, reflect.Int64:
		v.SetInt(int64([]int{5, -5, 13}[t.Choose(3, "int-default")]))
	case reflect.Uint8, reflect.Uint64:
		v.SetUint(5)
	case reflect.Float64, reflect.Float32:
		v.SetFloat(5.5)
	case reflect.Uint16:
		v.SetUint(5)
	case reflect.String:
		v.SetString("old")
	case reflect.Bool:
		v.SetBool(true)
	case reflect.Ptr:
		if v.Type() == reflect.TypeOf((*ucfg.Config)(nil)) {
			c, _ := ucfg.NewFrom(map[string]interface{}{"z": uint64(9)})
			v.Set(reflect.ValueOf(c))
			return
		}
		p := reflect.New(v.Type().Elem())
		fill(r, p.Elem(), depth+1)
		v.Set(p)
	case reflect.Slice:
		n := 1 + t.Choose(2, "slice-default-len")
		s := reflect.MakeSlice(v.Type(), n, n+t.Choose(2, "slice-spare-cap"))
		for i := 0; i < n; i++ {
			fill(r, s.Index(i), depth+1)
		}
		v.Set(s)
	case reflect.Array:
		for i := 0; i < v.Len(); i++ {
			fill(r, v.Index(i), depth+1)
		}
	case reflect.Map:
		m := reflect.MakeMap(v.Type())
		for _, k := range []string{"a", "z"} {
			var kv reflect.Value
			switch v.Type().Key().Kind() {
			case reflect.String:
				kv = reflect.ValueOf(k).Convert(v.Type().Key())
			case reflect.Int:
				kv = reflect.ValueOf(len(k))
			default:
				kv = reflect.ValueOf(k)
			}
			e := reflect.New(v.Type().Elem()).Elem()
			fill(r, e, depth+1)
			if !kv.Type().AssignableTo(v.Type().Key()) {
				continue
			}
			m.SetMapIndex(kv, e)
			if t.Bool("one-entry") {
				break
			}
		}
		v.Set(m)
	case reflect.Interface:
		if v.NumMethod() != 0 {
			// an implementation, where the harness has one
			for _, impl := range []interface{}{&cfgU{}, &strU{}, &anyU{}} {
				if reflect.TypeOf(impl).AssignableTo(v.Type()) {
					v.Set(reflect.ValueOf(impl))
				}
			}
			return
		}
		// an interface holding a value of some generated type (a struct by value, a pointer, a map ...)
		ht := genType(r, depth+2)
		h := reflect.New(ht).Elem()
		fill(r, h, depth+1)
		if t.Bool("iface-holds-pointer") {
			p := reflect.New(ht)
			p.Elem().Set(h)
			h = p
		}
		v.Set(h)
	case reflect.Struct:
		for i := 0; i < v.NumField(); i++ {
			if v.Field(i).CanSet() {
				fill(r, v.Field(i), depth+1)
			}
		}
	}
}

// inputFor builds a generic config value whose shape follows the type (sometimes it does not).
func inputFor(r *sim.R, ty reflect.Type, depth int) interface{} {
	t := r.T
	if depth > 5 {
		return uint64(1)
	}
	if t.Chance(1, 10, "shape-mismatch") {
		return []interface{}{uint64(1), "x", nil, map[string]interface{}{"a": uint64(1)}, []interface{}{uint64(2)}}[t.Choose(5, "mismatch")]
	}
	switch ty.Kind() {
	case reflect.Ptr:
		if ty == reflect.TypeOf((*ucfg.Config)(nil)) {
			return map[string]interface{}{"a": uint64(1), "l": []interface{}{uint64(1)}}
		}
		return inputFor(r, ty.Elem(), depth+1)
	case reflect.Slice, reflect.Array:
		n := t.Choose(4, "list-len")
		if ty.Kind() == reflect.Array && !t.Chance(1, 4, "wrong-array-len") {
			n = ty.Len()
		}
		l := []interface{}{}
		for i := 0; i < n; i++ {
			l = append(l, inputFor(r, ty.Elem(), depth+1))
		}
		return l
	case reflect.Map:
		m := map[string]interface{}{}
		for _, k := range []string{"a", "b", "1"}[:1+t.Choose(3, "map-keys")] {
			m[k] = inputFor(r, ty.Elem(), depth+1)
		}
		return m
	case reflect.Struct:
		if ty == reflect.TypeOf(regexp.Regexp{}) {
			return "a+b"
		}
		m := map[string]interface{}{}
		for i := 0; i < ty.NumField(); i++ {
			f := ty.Field(i)
			if !f.IsExported() || !t.Chance(3, 4, "mention") {
				continue
			}
			name := string(rune('a' + i))
			if ty == reflect.TypeOf(Init{}) || ty == reflect.TypeOf(Val{}) || ty == reflect.TypeOf(ucfg.Config{}) {
				name = []string{"a", "b", "n"}[i%3]
			}
			m[name] = inputFor(r, f.Type, depth+1)
		}
		return m
	case reflect.Interface:
		return []interface{}{uint64(7), "s", map[string]interface{}{"a": uint64(1), "b": map[string]interface{}{"c": "d"}}, []interface{}{uint64(1), uint64(2)}, nil}[t.Choose(5, "iface-input")]
	case reflect.String:
		return []interface{}{"new", "", "3s"}[t.Choose(3, "string-input")]
	case reflect.Bool:
		return t.Bool("bool-input")
	case reflect.Float64, reflect.Float32:
		return 2.5
	case reflect.Int64:
		if ty == reflect.TypeOf(time.Duration(0)) {
			return []interface{}{"2s", uint64(3), "0s", "-1s"}[t.Choose(4, "duration-input")]
		}
	}
	return []interface{}{uint64(2), uint64(0), int64(-3), uint64(13), uint64(300)}[t.Choose(5, "number-input")]
}

func typedTargets(r *sim.R) {
	var ty reflect.Type
	var target reflect.Value
	var in interface{}
	ok := true
	func() {
		// (reflect refuses some combinations outright, e.g. an over-long generated struct type: not a verdict)
		defer func() {
			if p := recover(); p != nil {
				ok = false
				r.Note("C07", "typed target generation refused by reflect")
			}
		}()
		ty = genType(r, 0)
		target = reflect.New(ty)
		fill(r, target.Elem(), 0)
		in = inputFor(r, ty, 0)
	}()
	if !ok {
		return
	}
	opts := []ucfg.Option{ucfg.PathSep(".")}
	switch r.T.Choose(5, "unpack-policy") {
	case 1:
		opts = append(opts, ucfg.AppendValues)
	case 2:
		opts = append(opts, ucfg.PrependValues)
	case 3:
		opts = append(opts, ucfg.ReplaceValues)
	case 4:
		opts = append(opts, ucfg.VarExp)
	}
	r.Tracef("Unpack(%v into %v pre-filled %+v)", in, ty, target.Elem())
	r.Fault("generated Unpack target type")
	var c *ucfg.Config
	wrapped := map[string]interface{}{"t": in}
	call(r, "NewFrom", func() { c, _ = ucfg.NewFrom(wrapped, opts...) })
	if c == nil {
		return
	}
	r.StateOps += 2
	// as a field of a struct (the usual way), and directly when the config has the shape for it
	holder := reflect.New(reflect.StructOf([]reflect.StructField{{Name: "T", Type: ty, Tag: `config:"t"`}}))
	holder.Elem().Field(0).Set(target.Elem())
	call(r, "Unpack", func() { c.Unpack(holder.Interface(), opts...) })
	call(r, "Unpack", func() { c.Unpack(holder.Interface(), opts...) }) // a reload into the result
	if sub, err := c.Child("t", -1, opts...); err == nil && sub != nil {
		call(r, "Unpack", func() { sub.Unpack(target.Interface(), opts...) })
	}
	// and the way back: the (possibly half-filled) value as a Merge source
	call(r, "Merge", func() { ucfg.New().Merge(holder.Interface(), opts...) })
}

// recMap is a recursive map type.
type recMap map[string]recMap

// recursive: object references that lead back to an object containing them, unpacked into
// recursive types (the generic targets are E2's; a typed target follows the reference outside the
// scope in which it was evaluated).
func recursive(r *sim.R) {
	t := r.T
	opts := []ucfg.Option{ucfg.PathSep("."), ucfg.VarExp}
	node := func(v uint64, next interface{}) map[string]interface{} {
		return map[string]interface{}{"v": v, "next": next}
	}
	var in map[string]interface{}
	switch t.Choose(6, "cycle-shape") {
	case 0:
		in = map[string]interface{}{"next": node(1, "${next}")}
	case 1:
		in = map[string]interface{}{"next": node(1, node(2, "${next}"))}
	case 2:
		in = map[string]interface{}{"next": node(1, "${other}"), "other": node(2, "${next}")}
	case 3:
		in = map[string]interface{}{"next": node(1, "${next.next}")}
	case 4:
		in = map[string]interface{}{"l": []interface{}{node(1, "${l.0}")}, "next": "${l.0}"}
	default:
		in = map[string]interface{}{"next": node(1, "${env}")} // the object comes from the environment config
	}
	env, _ := ucfg.NewFrom(map[string]interface{}{"env": node(3, "${env}")}, opts...)
	opts = append(opts, ucfg.Env(env))
	r.Tracef("NewFrom(%v) unpacked into recursive types", in)
	r.Fault("object reference leading back to an object that contains it")
	var c *ucfg.Config
	call(r, "NewFrom", func() { c, _ = ucfg.NewFrom(in, opts...) })
	if c == nil {
		return
	}
	r.StateOps += 2
	switch t.Choose(4, "recursive-target") {
	case 0:
		call(r, "Unpack", func() { c.Unpack(&selfRef{}, opts...) })
	case 1:
		call(r, "Unpack", func() { var m recMap; c.Unpack(&m, opts...) })
	case 2:
		call(r, "Unpack", func() {
			var s struct {
				Next selfRef
				L    []selfRef
			}
			c.Unpack(&s, opts...)
		})
	default:
		call(r, "Unpack", func() { var m map[string]*selfRef; c.Unpack(&m, opts...) })
	}
}

type recList []recList

type recSlices struct {
	A []recSlices
	V int
}

// oddities: legal-but-odd arguments reported from reading the code (by the sub-agents of the
// seeded-change waves and by review), each a one-call scenario. The table grows; the monitors judge.
func oddities(r *sim.R) {
	t := r.T
	opts := []ucfg.Option{ucfg.PathSep("."), ucfg.VarExp}
	r.Fault("odd but legal argument (table)")
	switch k := t.Choose(9, "oddity"); k {
	case 8:
		// a config attached below itself through a path that runs through a reference to it (or
		// to one of its ancestors): SetChild refuses or the tree stays finite - every read returns
		c, _ := ucfg.NewFrom(map[string]interface{}{
			"r": "${x}", "q": "${x.k}",
			"x": map[string]interface{}{"k": map[string]interface{}{"leaf": uint64(1), "m": map[string]interface{}{"z": uint64(2)}}},
		}, opts...)
		path := []string{"r.k.j", "r.k.m.j", "q.j", "q.m.j", "r.j", "r.k"}[t.Choose(6, "path-through-reference")]
		var val *ucfg.Config
		switch t.Choose(3, "attached-config") {
		case 0:
			val, _ = c.Child("x", -1, opts...)
		case 1:
			val = c
		default:
			val, _ = c.Child("x.k", -1, opts...)
		}
		if val == nil {
			return
		}
		r.Tracef("SetChild(%q) through a reference, of a config the path leads into; then every read", path)
		call(r, "SetChild", func() { c.SetChild(path, -1, val, opts...) })
		call(r, "Path", func() { _ = val.Path(".") })
		call(r, "FlattenedKeys", func() { c.FlattenedKeys(opts...) })
		call(r, "Unpack", func() { var m map[string]interface{}; c.Unpack(&m, opts...) })
		call(r, "Unpack", func() { var m map[string]interface{}; val.Unpack(&m, opts...) })
		call(r, "String", func() { c.String("x.k.leaf", -1, opts...) })
		call(r, "Merge", func() { ucfg.New().Merge(c, opts...) })
		call(r, "Merge", func() { ucfg.New().Merge(val, opts...) })
	case 0:
		// a pre-filled target that points to itself
		n := &selfRef{V: 1}
		n.Next = n
		if t.Bool("longer-cycle") {
			n.Next = &selfRef{V: 2, Next: n}
		}
		c, _ := ucfg.NewFrom(map[string]interface{}{"v": uint64(2)}, opts...)
		r.Tracef("Unpack({v: 2}) into a struct whose Next pointer leads back to itself")
		call(r, "Unpack", func() { c.Unpack(n, opts...) })
		call(r, "Unpack", func() { c.Unpack(&struct{ P *selfRef }{P: n}, opts...) })
	case 1:
		// fields of non-empty interface types, nil
		c, _ := ucfg.NewFrom(map[string]interface{}{"a": uint64(1)}, opts...)
		r.Tracef("Unpack into fields of interface types Initializer / Validator / error")
		call(r, "Unpack", func() {
			var to struct {
				X ucfg.Initializer
				Y ucfg.Validator
				Z error
				A int
			}
			c.Unpack(&to, opts...)
		})
	case 2:
		// an inline interface{} holding a slice (or a map, or a struct), config a list or a dictionary
		in := []interface{}{[]interface{}{uint64(1), uint64(2)}, map[string]interface{}{"a": uint64(1)}}[t.Choose(2, "inline-config")]
		held := []interface{}{[]int{7}, map[string]int{"z": 1}, struct{ A int }{3}, &struct{ A int }{3}, 5}[t.Choose(5, "inline-held")]
		c, err := ucfg.NewFrom(in, opts...)
		if err != nil {
			return
		}
		r.Tracef("Unpack(%v) into struct{ X interface{} `config:\",inline\"` }{X: %T}", in, held)
		call(r, "Unpack", func() {
			to := struct {
				X interface{} `config:",inline"`
			}{X: held}
			c.Unpack(&to, opts...)
		})
	case 3:
		// a config attached below itself, or below one of its own descendants
		c, _ := ucfg.NewFrom(map[string]interface{}{"a": map[string]interface{}{"b": map[string]interface{}{"x": uint64(1)}}}, opts...)
		var target *ucfg.Config = c
		if t.Bool("attach-to-descendant") {
			target, _ = c.Child("a.b", -1, opts...)
		}
		r.Tracef("SetChild of a config below itself / its own descendant, then every read")
		call(r, "SetChild", func() { target.SetChild("self", -1, c, opts...) })
		call(r, "Path", func() { _ = c.Path(".") })
		call(r, "Path", func() { _ = target.Path(".") })
		call(r, "FlattenedKeys", func() { c.FlattenedKeys(opts...) })
		call(r, "Unpack", func() { var m map[string]interface{}; c.Unpack(&m, opts...) })
		call(r, "String", func() { c.String("a.b.x", -1, opts...) })
		call(r, "Merge", func() { ucfg.New().Merge(c, opts...) })
	case 4:
		// a list that refers to itself, unpacked into recursive list types
		in := []interface{}{
			map[string]interface{}{"a": []interface{}{"${a}"}},
			map[string]interface{}{"a": []interface{}{map[string]interface{}{"a": "${a}"}}},
			map[string]interface{}{"a": "${b}", "b": []interface{}{"${a}"}},
			map[string]interface{}{"a": "x"},
			map[string]interface{}{"a": "${b}", "b": []interface{}{"x", "y"}},
			// an element that reaches the enclosing list through a chain of references
			map[string]interface{}{"a": []interface{}{map[string]interface{}{"a": "${b}"}}, "b": "${a}"},
			map[string]interface{}{"a": []interface{}{map[string]interface{}{"a": "${b}"}}, "b": "${c}", "c": "${a}"},
			map[string]interface{}{"a": []interface{}{[]interface{}{"${b}"}}, "b": "${c}", "c": "${a}"},
		}[t.Choose(8, "list-cycle")]
		c, err := ucfg.NewFrom(in, opts...)
		if err != nil {
			return
		}
		r.Tracef("Unpack(%v) into recursive list types", in)
		call(r, "Unpack", func() { var to struct{ A recList }; c.Unpack(&to, opts...) })
		call(r, "Unpack", func() { var to recSlices; c.Unpack(&to, opts...) })
		call(r, "Unpack", func() { var to struct{ A [][][]string }; c.Unpack(&to, opts...) })
	case 7:
		// pre-filled maps and slices that contain themselves (directly, or through a struct)
		m := map[string]interface{}{"k": uint64(1)}
		m["self"] = m
		s := make([]interface{}, 2)
		s[0], s[1] = s, m
		if t.Bool("slice-in-map") {
			m["list"] = s
		}
		c, _ := ucfg.NewFrom(map[string]interface{}{"m": map[string]interface{}{"k": uint64(2)}, "s": []interface{}{uint64(1)}}, opts...)
		r.Tracef("Unpack into targets pre-filled with a map / slice that contains itself")
		call(r, "Unpack", func() { ucfg.New().Unpack(&m, opts...) })
		call(r, "Unpack", func() {
			to := struct {
				M map[string]interface{}
				S []interface{}
				X interface{}
			}{M: m, S: s, X: m}
			if t.Bool("settings-for-them") {
				c.Unpack(&to, opts...)
			} else {
				ucfg.New().Unpack(&to, opts...)
			}
		})
	case 5:
		// a Config held by value
		c, _ := ucfg.NewFrom(map[string]interface{}{"a": uint64(1), "c": map[string]interface{}{"x": uint64(1)}}, opts...)
		r.Tracef("Unpack into struct{ C ucfg.Config }")
		call(r, "Unpack", func() {
			var to struct {
				A int
				C ucfg.Config
			}
			c.Unpack(&to, opts...)
		})
	default:
		// empty names and empty path segments
		c := ucfg.New()
		for _, n := range []string{"", ".", "a..b", ".a", "a.", "..", "a.0.", "0"} {
			n := n
			call(r, "SetInt", func() { c.SetInt(n, -1, 1, opts...) })
			call(r, "Int", func() { c.Int(n, -1, opts...) })
			call(r, "Remove", func() { c.Remove(n, -1, opts...) })
		}
		call(r, "FlattenedKeys", func() { c.FlattenedKeys(opts...) })
		call(r, "Unpack", func() { var m map[string]interface{}; c.Unpack(&m, opts...) })
	}
	r.StateOps += 2
}
