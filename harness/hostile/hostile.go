// Package hostile is the single-task part of the C07 check: every public
// entry point is driven with hostile-but-legal arguments in the middle of
// otherwise valid histories, with only the run-wide monitors as oracles: no
// panic, no fatal runtime error (worker crash monitor), termination within the
// step budget (bounded liveness), no list longer than the maximum index allows.
package hostile

import (
	"fmt"
	"reflect"
	"strconv"
	"strings"

	ucfg "github.com/elastic/go-ucfg"
	"github.com/elastic/go-ucfg/flag"
	"github.com/elastic/go-ucfg/hjson"
	"github.com/elastic/go-ucfg/json"
	"github.com/elastic/go-ucfg/parse"
	"github.com/elastic/go-ucfg/yaml"

	"harness/sim"
	"harness/varexp"
	"harness/world"
)

var hostileNames = []string{"", ".", "..", "a.", ".a", "a..b", "-1", "-0", "+1", "0", "1", "007", "0x10", "0b11", "0o7", "1_0", "1e3", "1.5",
	"9223372036854775807", "9223372036854775808", "-9223372036854775808", "18446744073709551616", "1024", "1025", "5000", "a.-1", "a.1025", "a.0.b", "0.0.0",
	"[a.b]", "[", "]", "a b", "é", "\x00", "*", "**", "a.*", "**.a", "$", "${a}", "a=b"}

var hostileIdx = []int{-1, -2, -1 << 31, 0, 1, 2, 7, 9, 1023, 1024, 1025, 5000, 1 << 16, 1 << 20, 1 << 40, 1<<62 + 5}

func name(r *sim.R) string {
	if r.T.Chance(1, 3, "plain-name") {
		return []string{"a", "b", "a.b", "l", "l.0"}[r.T.Choose(5, "plain")]
	}
	return hostileNames[r.T.Choose(len(hostileNames), "hostile-name")]
}

func idx(r *sim.R) int {
	if r.T.Chance(1, 3, "plain-idx") {
		return -1
	}
	return hostileIdx[r.T.Choose(len(hostileIdx), "hostile-idx")]
}

// maxIdxOf remembers the MaxIdx the last genOpts drew (default 1024).
var maxIdxOf = 1024

func genOpts(r *sim.R) ([]ucfg.Option, string) {
	t := r.T
	var o []ucfg.Option
	var d []string
	maxIdxOf = 1024
	if t.Choose(3, "sep") != 0 {
		o = append(o, ucfg.PathSep("."))
		d = append(d, "PathSep")
	}
	if t.Chance(1, 3, "varexp") {
		o = append(o, ucfg.VarExp)
		d = append(d, "VarExp")
	}
	switch t.Choose(6, "maxidx") {
	case 1:
		o = append(o, ucfg.MaxIdx(0))
		d = append(d, "MaxIdx(0)")
		maxIdxOf = 0
	case 2:
		o = append(o, ucfg.MaxIdx(8))
		d = append(d, "MaxIdx(8)")
		maxIdxOf = 8
	case 4:
		o = append(o, ucfg.MaxIdx(-1))
		d = append(d, "MaxIdx(-1)")
		maxIdxOf = -1
	case 5:
		o = append(o, ucfg.MaxIdx(-1<<40))
		d = append(d, "MaxIdx(-2^40)")
		maxIdxOf = -1
	case 3:
		o = append(o, ucfg.EnableNumKeys(true))
		d = append(d, "EnableNumKeys")
	}
	if t.Chance(1, 5, "escape") {
		o = append(o, ucfg.EscapePath())
		d = append(d, "EscapePath")
	}
	return o, strings.Join(d, ",")
}

func call(r *sim.R, op string, fn func()) {
	out := r.Call(fn)
	if out.Panic != nil {
		r.FailD("no-panic", op, map[string]string{"panic": fmt.Sprint(out.Panic)}, "%s panicked: %v\n%s", op, out.Panic, out.Stack)
	}
	if out.Budget {
		r.FailD("terminates", op, nil, "%s did not return within the step budget (%d instrumented events, or 8 s): non-termination at %s", op, sim.StepBudget, out.BudgetAt)
	}
}

// maxLen returns the longest list reachable in c (reading lengths only).
func maxLen(r *sim.R, c *ucfg.Config, depth int) int {
	if c == nil || depth > 6 {
		return 0
	}
	n := 0
	if c.IsArray() {
		l, _ := c.CountField("")
		l -= len(c.GetFields())
		if l > n {
			n = l
		}
		for i := 0; i < l && i < 8; i++ {
			if ch, err := c.Child("", i); err == nil {
				if m := maxLen(r, ch, depth+1); m > n {
					n = m
				}
			}
		}
	}
	for _, f := range c.GetFields() {
		if ch, err := c.Child(f, -1); err == nil {
			if m := maxLen(r, ch, depth+1); m > n {
				n = m
			}
		}
	}
	return n
}

func checkAlloc(r *sim.R, c *ucfg.Config, op string, limit int) {
	var n int
	call(r, "inspect", func() { n = maxLen(r, c, 0) })
	if n > limit {
		r.FailD("bounded-allocation", op, nil, "after %s a list has %d slots: more than the maximum index (%d) allows", op, n, limit-1)
	}
}

// accessors: hostile (name, idx) pairs to every getter / setter in the middle of a history.
func accessors(r *sim.R) {
	t := r.T
	opts, od := genOpts(r)
	var c *ucfg.Config
	init := map[string]interface{}{"a": map[string]interface{}{"b": uint64(1)}, "l": []interface{}{uint64(1), "x", map[string]interface{}{"k": true}}, "s": "str", "n": nil}
	call(r, "NewFrom", func() { c, _ = ucfg.NewFrom(init, opts...) })
	if c == nil {
		return
	}
	r.Tracef("config %v opts [%s]", init, od)
	limit := maxIdxOf + 1
	if limit < 3 {
		limit = 3 // the initial list has three elements
	}
	n := 1 + t.Choose(8, "n-ops")
	for i := 0; i < n; i++ {
		r.NextStep()
		nm, ix := name(r), idx(r)
		h := c
		if t.Chance(1, 3, "via-child") {
			var ch *ucfg.Config
			call(r, "Child", func() { ch, _ = c.Child([]string{"a", "l"}[t.Choose(2, "child")], -1, opts...) })
			if ch != nil {
				h = ch
			}
		}
		k := t.Choose(14, "accessor")
		opn := [...]string{"Bool", "Int", "Uint", "Float", "String", "Child", "Has", "Remove", "SetInt", "SetString", "SetChild", "CountField", "PathOf", "HasField"}[k]
		r.Tracef("%s(%q, %d)", opn, nm, ix)
		r.Fault("hostile name/index argument")
		call(r, opn, func() {
			switch k {
			case 0:
				h.Bool(nm, ix, opts...)
			case 1:
				h.Int(nm, ix, opts...)
			case 2:
				h.Uint(nm, ix, opts...)
			case 3:
				h.Float(nm, ix, opts...)
			case 4:
				h.String(nm, ix, opts...)
			case 5:
				h.Child(nm, ix, opts...)
			case 6:
				h.Has(nm, ix, opts...)
			case 7:
				h.Remove(nm, ix, opts...)
			case 8:
				h.SetInt(nm, ix, 7, opts...)
			case 9:
				h.SetString(nm, ix, "w", opts...)
			case 10:
				if r.T.Chance(1, 4, "nil-child") {
					h.SetChild(nm, ix, nil, opts...)
				} else {
					h.SetChild(nm, ix, ucfg.New(), opts...)
				}
			case 11:
				h.CountField(nm, opts...)
			case 12:
				h.PathOf(nm, ".")
			case 13:
				h.HasField(nm)
			}
		})
		r.StateOps++
		if k >= 8 && k <= 10 {
			checkAlloc(r, c, opn, limit)
		}
		// the config must stay usable
		call(r, "Unpack", func() {
			var m map[string]interface{}
			c.Unpack(&m, opts...)
		})
		call(r, "FlattenedKeys", func() { c.FlattenedKeys(opts...) })
	}
}

// keys: hostile key strings as map keys of NewFrom / Merge inputs.
func keys(r *sim.R) {
	t := r.T
	opts, od := genOpts(r)
	in := map[string]interface{}{}
	n := 1 + t.Choose(4, "n-keys")
	for i := 0; i < n; i++ {
		var v interface{} = uint64(i)
		switch t.Choose(4, "val") {
		case 1:
			v = map[string]interface{}{name(r): "x"}
		case 2:
			v = []interface{}{uint64(1), nil}
		case 3:
			v = nil
		}
		in[name(r)] = v
	}
	r.Tracef("NewFrom(%v) opts [%s]", in, od)
	r.Fault("hostile key string")
	var c *ucfg.Config
	call(r, "NewFrom", func() { c, _ = ucfg.NewFrom(in, opts...) })
	r.StateOps += 2
	if c != nil {
		limit := maxIdxOf + 1
		if limit < 2 {
			limit = 2 // a literal list value of the input has two elements
		}
		checkAlloc(r, c, "NewFrom", limit)
		call(r, "Unpack", func() {
			var m map[string]interface{}
			c.Unpack(&m, opts...)
		})
		call(r, "Merge", func() { c.Merge(in, opts...) })
		call(r, "FlattenedKeys", func() { c.FlattenedKeys(opts...) })
	}
}

type weird struct {
	C  chan int
	F  func()
	P  **int
	I  interface{}
	M  map[int]string
	A  [0]int
	U  uintptr
	Z  complex128
	un int
}

type selfRef struct {
	Next *selfRef
	V    int
}

// targets: unsupported and odd Unpack targets, odd Merge sources.
func targets(r *sim.R) {
	t := r.T
	opts, _ := genOpts(r)
	var c *ucfg.Config
	call(r, "NewFrom", func() {
		c, _ = ucfg.NewFrom(map[string]interface{}{"c": uint64(1), "f": "x", "p": uint64(2), "i": map[string]interface{}{"q": uint64(1)}, "m": map[string]interface{}{"1": "a"},
			"a": []interface{}{}, "u": uint64(3), "z": uint64(4), "next": map[string]interface{}{"v": uint64(1), "next": map[string]interface{}{"v": uint64(2)}}, "v": uint64(9)}, opts...)
	})
	if c == nil {
		return
	}
	var nilCfg *ucfg.Config
	var ip *int
	var np *weird
	var iface interface{}
	var mm map[int]string
	targets := []interface{}{nil, 5, "s", &iface, iface, &weird{}, weird{}, np, &np, &ip, &mm, map[int]string{}, map[string]int{}, &[]int{}, &[2]int{}, []int{1}, &selfRef{}, new(chan int), new(func()),
		&struct{ C complex64 }{}, &struct{ M map[string]chan int }{}, &struct{ S []func() }{}, &struct{ P ***int }{}, new(*ucfg.Config), new(ucfg.Config), nilCfg, reflect.ValueOf(5), &struct{ V reflect.Value }{}}
	k := t.Choose(len(targets), "target")
	r.Tracef("Unpack(%T)", targets[k])
	r.Fault("unsupported or odd Unpack target")
	call(r, "Unpack", func() { c.Unpack(targets[k], opts...) })
	if t.Bool("nil-config") {
		call(r, "Unpack", func() { nilCfg.Unpack(&struct{}{}) })
	}
	sources := []interface{}{nil, 5, "s", ip, np, &np, weird{}, &weird{}, map[int]string{1: "a"}, map[interface{}]interface{}{1: "a"}, map[interface{}]interface{}{"a": make(chan int)}, []interface{}{make(chan int)},
		[]interface{}{func() {}}, map[string]interface{}{"a": complex(1, 2)}, map[string]interface{}{"a": uintptr(1)}, &selfRef{V: 1, Next: &selfRef{V: 2}}, nilCfg, new(ucfg.Config), []*ucfg.Config{nil}, map[string]*ucfg.Config{"a": nil},
		map[string]interface{}{"a": reflect.ValueOf(1)}, [3]interface{}{1, nil, "x"}, struct{ A, b int }{1, 2}}
	j := t.Choose(len(sources), "source")
	r.Tracef("Merge(%T)", sources[j])
	r.Fault("unsupported or odd Merge source")
	call(r, "Merge", func() { c.Merge(sources[j], opts...) })
	call(r, "NewFrom", func() { ucfg.NewFrom(sources[j], opts...) })
	r.StateOps += 2
}

var spliceAlphabet = []string{"${", "}", ":", ":+", ":?", "$", "$$", "$}", "a", "b.c", "x", " ", "${a}", "${}", "${a:", "${${", ".", "0", "-1", "[", "]", "{", ",", "'", "\""}

func genSoup(r *sim.R, alphabet []string, max int) string {
	n := 1 + r.T.Choose(max, "soup-len")
	var b strings.Builder
	for i := 0; i < n; i++ {
		b.WriteString(alphabet[r.T.Choose(len(alphabet), "soup")])
	}
	return b.String()
}

// splices: malformed and odd strings stored as settings under VarExp, then read.
func splices(r *sim.R) {
	opts := []ucfg.Option{ucfg.PathSep("."), ucfg.VarExp}
	if r.T.Bool("resolve-env") {
		opts = append(opts, ucfg.ResolveEnv)
	}
	if r.T.Chance(1, 4, "resolve-noop") {
		opts = append(opts, ucfg.ResolveNOOP)
	}
	if r.T.Chance(1, 3, "hostile-resolver") {
		// an environment whose values refer to the variable they are the value of (or to anything else)
		shape := r.T.Choose(5, "resolver-answer")
		opts = append(opts, ucfg.Resolve(func(name string) (string, parse.Config, error) {
			ref := "${" + name + "}"
			return []string{"[" + ref + "]", "{k: " + ref + "}", ref, "[[" + ref + ", ${a}]]", "x" + ref + ",${b}"}[shape], parse.DefaultConfig, nil
		}))
		r.Fault("environment value that refers to its own variable")
	}
	in := map[string]interface{}{"a": "v", "b": map[string]interface{}{"c": uint64(1)}}
	n := 1 + r.T.Choose(3, "n-strings")
	for i := 0; i < n; i++ {
		in["s"+strconv.Itoa(i)] = genSoup(r, spliceAlphabet, 6)
	}
	r.Tracef("NewFrom(%q)", in)
	r.Fault("malformed or odd splice string")
	var c *ucfg.Config
	call(r, "NewFrom", func() { c, _ = ucfg.NewFrom(in, opts...) })
	r.StateOps += 2
	if c == nil {
		return
	}
	call(r, "Unpack", func() {
		var m map[string]interface{}
		c.Unpack(&m, opts...)
	})
	for i := 0; i < n; i++ {
		k := "s" + strconv.Itoa(i)
		call(r, "String", func() { c.String(k, -1, opts...) })
		call(r, "Child", func() { c.Child(k, -1, opts...) })
		call(r, "CountField", func() { c.CountField(k, opts...) })
	}
	call(r, "FlattenedKeys", func() { c.FlattenedKeys(opts...) })
}

var valueAlphabet = []string{"[", "]", "{", "}", ",", ":", "\"", "'", "\\", " ", "a", "1", "-", ".", "e", "true", "null", "\n", "\t", "é"}

// values: strings given to parse.Value under every parse.Config, and flag arguments.
func values(r *sim.R) {
	s := genSoup(r, valueAlphabet, 7)
	r.Tracef("parse.Value(%q) under every parse.Config", s)
	r.Fault("malformed or odd flag / environment value")
	for _, cfg := range []parse.Config{parse.DefaultConfig, parse.EnvConfig, parse.NoopConfig,
		{Array: true, Object: true}, {Array: true, StringDQuote: true, IgnoreCommas: true}, {Object: true}, {}} {
		cfg := cfg
		call(r, "parse.ValueWithConfig", func() { parse.ValueWithConfig(s, cfg) })
	}
	call(r, "parse.Value", func() { parse.Value(s) })
	r.StateOps += 2
	fv := flag.NewFlagKeyValue(nil, r.T.Bool("autobool"), ucfg.PathSep("."))
	for i := 0; i < 1+r.T.Choose(3, "n-args"); i++ {
		arg := name(r)
		if r.T.Bool("with-value") {
			arg += "=" + genSoup(r, valueAlphabet, 5)
		}
		r.Tracef("flag.Set(%q)", arg)
		call(r, "FlagValue.Set", func() { fv.Set(arg) })
		call(r, "FlagValue.String", func() { _ = fv.String() })
	}
}

var docAlphabet = []string{"a", ":", " ", "\n", "-", "[", "]", "{", "}", ",", "\"", "'", "1", "&", "*", "!", "|", ">", "#", "?", "%", "@", "~", "\t", "0x", ".", "<<", "null", "é", "\x00"}

// documents: small byte strings given to the three format loaders.
func documents(r *sim.R) {
	doc := []byte(genSoup(r, docAlphabet, 10))
	r.Tracef("loaders(%q)", doc)
	r.Fault("arbitrary bytes to a format loader")
	opts, _ := genOpts(r)
	call(r, "yaml.NewConfig", func() { yaml.NewConfig(doc, opts...) })
	call(r, "json.NewConfig", func() { json.NewConfig(doc, opts...) })
	call(r, "hjson.NewConfig", func() { hjson.NewConfig(doc, opts...) })
	r.StateOps += 2
}

// attachments: a few configs attached to each other with SetChild in every way the signature
// allows - by name, by dotted path, at an index, a config below two parents, a child handle
// below its own root, a config below itself. Whatever SetChild answers, no config may end up
// containing itself: every read of every config returns.
func attachments(r *sim.R) {
	t := r.T
	opts := []ucfg.Option{ucfg.PathSep(".")}
	seeds := []interface{}{
		map[string]interface{}{},
		map[string]interface{}{"a": map[string]interface{}{"b": map[string]interface{}{"x": uint64(1)}}},
		map[string]interface{}{"l": []interface{}{map[string]interface{}{"x": uint64(1)}, uint64(2)}},
		[]interface{}{map[string]interface{}{"a": uint64(1)}},
	}
	var pool []*ucfg.Config
	for i := 0; i < 2+t.Choose(3, "n-configs"); i++ {
		c, err := ucfg.NewFrom(seeds[t.Choose(len(seeds), "config-seed")], opts...)
		if err != nil {
			return
		}
		pool = append(pool, c)
	}
	names := []string{"a", "b", "a.b", "a.b.c", "l", "l.0", "loop", ""}
	r.Fault("configs attached to each other in every way SetChild allows")
	for step := 0; step < 2+t.Choose(6, "n-attachments"); step++ {
		r.NextStep()
		if t.Chance(1, 4, "take-child-handle") {
			p := pool[t.Choose(len(pool), "handle-of")]
			n := names[t.Choose(len(names)-1, "handle-name")]
			var h *ucfg.Config
			call(r, "Child", func() { h, _ = p.Child(n, -1, opts...) })
			if h != nil {
				pool = append(pool, h)
				r.Tracef("c%d := c?.Child(%q)", len(pool)-1, n)
			}
			continue
		}
		di, si := t.Choose(len(pool), "attach-to"), t.Choose(len(pool), "attach-what")
		n := names[t.Choose(len(names), "attach-name")]
		ix := []int{-1, -1, 0, 1}[t.Choose(4, "attach-idx")]
		var err error
		call(r, "SetChild", func() { err = pool[di].SetChild(n, ix, pool[si], opts...) })
		r.Tracef("c%d.SetChild(%q, %d, c%d) = %v", di, n, ix, si, err)
		r.StateOps++
		for i, c := range pool {
			c := c
			call(r, "Path", func() { _ = c.Path(".") })
			call(r, "FlattenedKeys", func() { c.FlattenedKeys(opts...) })
			call(r, "Unpack", func() {
				var m map[string]interface{}
				var l []interface{}
				if c.IsArray() && !c.IsDict() {
					c.Unpack(&l, opts...)
				} else {
					c.Unpack(&m, opts...)
				}
			})
			call(r, "Merge", func() { ucfg.New().Merge(c, opts...) })
			_ = i
		}
	}
	r.Probe("hostile: configs attached to each other, every config read after every attachment")
}

// Run executes one hostile run.
func Run(r *sim.R) {
	r.Order = r.T.Weighted([]int{3, 1, 1}, "order-policy")
	switch r.T.Weighted([]int{4, 3, 2, 3, 3, 2, 3, 3, 4, 1, 1, 2, 1}, "family") {
	case 11:
		attachments(r)
	case 12:
		// merges over references: destinations whose settings refer to their own sections (and to
		// themselves), sources that do the same - under the monitors
		world.RefMerge(r)
		r.Probe("hostile: merges over references under the monitors")
	case 8:
		typedTargets(r)
	case 9:
		recursive(r)
	case 10:
		oddities(r)
	case 7:
		// well-formed reference graphs of every shape (cycles through dictionaries and lists,
		// absorbed cycles, drifting environments, failing resolvers) read through every entry point
		n := 6
		if r.Tier == "thorough" {
			n = 12
		}
		varexp.Run(r, "C07", n)
		r.Probe("hostile: reference graphs read under the monitors")
	case 6:
		// nothing hostile but the history: every operation, every policy, elements moved by
		// removals and prepends, configs attached and merged from - under the monitors
		n := 14
		if r.Tier == "thorough" {
			n = 30
		}
		world.Run(r, world.Histories, n)
		r.Probe("hostile: long valid history under the monitors")
	case 0:
		accessors(r)
	case 1:
		keys(r)
	case 2:
		targets(r)
	case 3:
		splices(r)
	case 4:
		values(r)
	case 5:
		documents(r)
	}
}
