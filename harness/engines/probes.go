package engines

import (
	"fmt"
	"regexp"
	"strings"
	"time"

	ucfg "github.com/elastic/go-ucfg"
	"github.com/elastic/go-ucfg/flag"
	"github.com/elastic/go-ucfg/parse"
	"github.com/elastic/go-ucfg/zzsimhook"
)

// Deterministic scenarios, one per finding of DESIGN.md section 10. Each
// returns whether the defect shows on the tree the worker was built from.
// Findings that were repaired keep their scenario as a regression test.

func init() {
	probes["O1"] = probeO1
	probes["O2"] = probeO2
	probes["O3"] = probeO3
	probes["O4"] = probeO4
	probes["O6"] = probeO6
	probes["O7"] = probeO7
	probes["O8"] = probeO8
	probes["O9"] = probeO9
	probes["O10"] = probeO10
	probes["O11"] = probeO11
	probes["O12"] = probeO12
	probes["O13"] = probeO13
	probes["O16"] = probeO16
	probes["O17"] = probeO17
	probes["O18"] = probeO18
	probes["O19"] = probeO19
	probes["O20"] = probeO20
	probes["O21"] = probeO21
	probes["O22"] = probeO22
	probes["O25"] = probeO25
	probes["O26"] = probeO26
	probes["O27"] = probeO27
	probes["O28"] = probeO28
	probes["O29"] = probeO29
	probes["O30"] = probeO30
	probes["O31"] = probeO31
	probes["O32"] = probeO32
	probes["O33"] = probeO33
	probes["O34"] = probeO34
	probes["O35"] = probeO35
	probes["O36"] = probeO36
	probes["O37"] = probeO37
	probes["O46"] = probeO46
	probes["O50"] = probeO50
	probes["O51"] = probeO51
	probes["O52"] = probeO52
	probes["O53"] = probeO53
	probes["O54"] = probeO54
	probes["O55"] = probeO55
	probes["O78"] = func() (bool, string) {
		return guard(func() (bool, string) {
			c, _ := ucfg.NewFrom(map[string]interface{}{"f": 0.1, "g": 0.7})
			var to struct {
				F float32 `validate:"max=0.1"`
				G float32 `validate:"min=0.7"`
			}
			err := c.Unpack(&to)
			return err != nil, fmt.Sprint(err)
		})
	}
	probes["O79"] = func() (bool, string) {
		return guard(func() (bool, string) {
			type named string
			c, _ := ucfg.NewFrom(map[string]interface{}{"s": ""})
			var to struct {
				S named `validate:"nonzero"`
			}
			err := c.Unpack(&to)
			return err == nil, fmt.Sprint(err)
		})
	}
	probes["O91"] = func() (bool, string) {
		return guard(func() (bool, string) {
			s := &probeSBSub{}
			s.Items = s.buf[:1] // items.0.n = 0 breaks min=1
			to := struct{ Sub *probeSBSub }{Sub: s}
			err := ucfg.New().Unpack(&to)
			return err == nil, fmt.Sprint(err)
		})
	}
	probes["O90"] = func() (bool, string) {
		return guard(func() (bool, string) {
			to := struct {
				M map[string]int `config:",inline" validate:"nonzero"`
			}{M: map[string]int{}}
			err := ucfg.New().Unpack(&to)
			return err == nil, fmt.Sprint(err)
		})
	}
	probes["O89"] = func() (bool, string) {
		return guard(func() (bool, string) {
			empty := ""
			to := struct {
				S *string `validate:"required"`
			}{S: &empty}
			err := ucfg.New().Unpack(&to)
			return err == nil, fmt.Sprint(err)
		})
	}
	probes["O88"] = func() (bool, string) {
		return guard(func() (bool, string) {
			var to struct{ I interface{} }
			c1, _ := ucfg.NewFrom(map[string]interface{}{"i": 5})
			c2, _ := ucfg.NewFrom(map[string]interface{}{"i": "text"})
			c1.Unpack(&to)
			err := c2.Unpack(&to)
			return err != nil || to.I != "text", fmt.Sprint(err, " ", to.I)
		})
	}
	probes["O87"] = func() (bool, string) {
		return guard(func() (bool, string) {
			c, _ := ucfg.NewFrom(map[string]interface{}{"m": map[string]interface{}{}})
			var to struct {
				M *map[string]int `validate:"nonzero"`
			}
			err := c.Unpack(&to)
			return err == nil, fmt.Sprint(err)
		})
	}
	probes["O86"] = func() (bool, string) {
		return guard(func() (bool, string) {
			to := struct{ I interface{} }{I: rejecting{}}
			err := ucfg.New().Unpack(&to)
			return err == nil, fmt.Sprint(err)
		})
	}
	probes["O85"] = func() (bool, string) {
		return guard(func() (bool, string) {
			c, _ := ucfg.NewFrom(map[string]interface{}{"b": 1})
			var to struct {
				A initArr
				B int
			}
			err := c.Unpack(&to)
			return err != nil || to.A != initArr{7, 8}, fmt.Sprint(err, " ", to.A)
		})
	}
	probes["O84"] = func() (bool, string) {
		return guard(func() (bool, string) {
			type Base struct{ A int }
			c, _ := ucfg.NewFrom(map[string]interface{}{"a": 1})
			var to struct {
				B *Base `config:",inline"`
			}
			err := c.Unpack(&to)
			return err != nil || to.B == nil || to.B.A != 1, fmt.Sprint(err)
		})
	}
	probes["O83"] = func() (bool, string) {
		return guard(func() (bool, string) {
			sub, _ := ucfg.NewFrom(map[string]interface{}{"k": 1})
			type src struct {
				C *ucfg.Config `config:",inline"`
				X int
			}
			c := ucfg.New()
			err := c.Merge(src{C: sub, X: 3})
			k, kerr := c.Int("k", -1)
			return err != nil || kerr != nil || k != 1, fmt.Sprint(err, " ", kerr)
		})
	}
	probes["O82"] = func() (bool, string) {
		return guard(func() (bool, string) {
			c, _ := ucfg.NewFrom(map[string]interface{}{"l": map[string]interface{}{"a": 1}})
			to := struct {
				L []int `config:"l,replace"`
			}{L: []int{1, 2}}
			err := c.Unpack(&to)
			return err == nil, fmt.Sprint(err, " ", to.L)
		})
	}
	probes["O81"] = func() (bool, string) {
		return guard(func() (bool, string) {
			c, _ := ucfg.NewFrom([]interface{}{10, "x", 30})
			arr := [3]int{1, 2, 3}
			err := c.Unpack(&arr)
			return err == nil || arr != [3]int{1, 2, 3}, fmt.Sprint(err, " ", arr)
		})
	}
	probes["O80"] = func() (bool, string) {
		return guard(func() (bool, string) {
			c, _ := ucfg.NewFrom(map[string]interface{}{"a": 1})
			var to struct {
				A primUnpacker `validate:"min=5"`
			}
			err := c.Unpack(&to)
			return err == nil, fmt.Sprint(err)
		})
	}
	probes["O77"] = func() (bool, string) {
		return guard(func() (bool, string) {
			c, _ := ucfg.NewFrom(map[string]interface{}{"m": map[string]interface{}{"k": []int{1, 2}}, "p": []int{3, 4}})
			var to struct {
				M map[string][2]int
				P *[2]int
			}
			err := c.Unpack(&to)
			return err != nil || to.M["k"] != [2]int{1, 2} || to.P == nil || *to.P != [2]int{3, 4}, fmt.Sprint(err)
		})
	}
	probes["O76"] = func() (bool, string) {
		return guard(func() (bool, string) {
			r, x, d := ucfg.New(), ucfg.New(), ucfg.New()
			x.SetInt("k", -1, 1)
			r.SetChild("b", -1, x)
			r.SetString("b", -1, "s") // x is replaced
			d.SetChild("a", -1, x)    // ... and attached elsewhere
			err := x.SetChild("a", -1, r)
			return x.Path(".") != "a" || x.Parent() != d || err != nil, fmt.Sprintf("re-attached config: Path %q, Parent is the new parent: %v; attaching its former parent below it: %v", x.Path("."), x.Parent() == d, err)
		})
	}
	probes["O75"] = func() (bool, string) {
		return guard(func() (bool, string) {
			in := func() map[string]interface{} {
				return map[string]interface{}{"a": "${b}", "a.x.y": 1, "b": map[string]interface{}{"x": map[string]interface{}{"z": 2}}}
			}
			// (the enumeration hook permutes the sorted keys a, a.x.y, b of the top-level map)
			defer func() { zzsimhook.OnKeys = nil }()
			var outs []string
			for _, perm := range [][]int{{0, 1, 2}, {2, 0, 1}, {2, 1, 0}} {
				perm := perm
				zzsimhook.OnKeys = func(site string, n int) []int {
					if n == 3 {
						return perm
					}
					id := make([]int, n)
					for i := range id {
						id[i] = i
					}
					return id
				}
				_, err := ucfg.NewFrom(in(), sepVar...)
				outs = append(outs, fmt.Sprint(err == nil))
			}
			return outs[0] != outs[1] || outs[1] != outs[2], "NewFrom succeeds under the key orders (a, a.x.y, b) / (b, a, a.x.y) / (b, a.x.y, a): " + strings.Join(outs, " / ")
		})
	}
	probes["O74"] = func() (bool, string) {
		return guard(func() (bool, string) {
			a, b := underOrders(func() string {
				c, _ := ucfg.NewFrom(map[string]interface{}{"x": map[string]interface{}{"a": 1}, "y": 2, "z": 3})
				ch, _ := c.Child("x", -1)
				err := ch.Merge(c)
				var m map[string]interface{}
				ch.Unpack(&m)
				return fmt.Sprint(err, m)
			})
			want := "<nil> map[a:1 x:map[a:1] y:2 z:3]"
			return a != b || a != want, "x.Merge(its parent) under sorted / reversed enumeration: " + a + " / " + b
		})
	}
	probes["O73"] = func() (bool, string) {
		// (the defect is unbounded recursion: a fatal stack overflow, not a panic - bounded by depth here)
		depth := 0
		zzsimhook.OnEnter = func(string) {
			depth++
			if depth > 300000 {
				panic("does not come to an end")
			}
		}
		defer func() { zzsimhook.OnEnter = nil }()
		return guard(func() (bool, string) {
			m := map[string]interface{}{}
			m["self"] = m
			err := ucfg.New().Unpack(&m)
			return false, fmt.Sprint(err)
		})
	}
	probes["O69"] = probeBounded(func() {
		// (a) a path argument that leads into the value itself
		c, v := ucfg.New(), ucfg.New()
		c.SetChild("a", -1, v)
		c.SetChild("a.b", -1, v, ucfg.PathSep("."))
		var m map[string]interface{}
		c.Unpack(&m)
		// (b) one config below two parents, then one of the parents below it
		a, b, x := ucfg.New(), ucfg.New(), ucfg.New()
		a.SetChild("x", -1, x)
		b.SetChild("x", -1, x)
		x.SetChild("loop", -1, b)
		b.Unpack(&m)
		// (c) the parent link of a replaced child still names its former parent
		r, o := ucfg.New(), ucfg.New()
		r.SetChild("a", -1, ucfg.New())
		h, _ := r.Child("a", -1)
		r.SetChild("a", -1, o)
		h.SetChild("a", -1, r)
		_ = r.Path(".")
	})
	probes["O70"] = probeBounded(func() {
		type s struct{ X int }
		type ps *s
		c, _ := ucfg.NewFrom(map[string]interface{}{"f": map[string]interface{}{"x": 1}, "g": map[string]interface{}{"k": map[string]interface{}{"x": 1}}})
		var to struct {
			F ps
			G map[string]*ps
		}
		c.Unpack(&to)
	})
	probes["O71"] = probePanics(func() {
		c, _ := ucfg.NewFrom(map[string]interface{}{"f": map[string]interface{}{"x": 1}})
		var to struct {
			F interface{ Unpack(*ucfg.Config) error }
		}
		c.Unpack(&to)
	})
	probes["O72"] = probePanics(func() {
		c, _ := ucfg.NewFrom(map[string]interface{}{"f": 1})
		to := struct {
			F interface{ Unpack(interface{}) error }
		}{F: &heldUnpacker{}}
		c.Unpack(&to)
	})
	probes["O68"] = func() (bool, string) {
		return guard(func() (bool, string) {
			c, _ := ucfg.NewFrom(map[string]interface{}{"m": map[string]interface{}{"q": []interface{}{"v", "${nope}"}}}, append(append([]ucfg.Option{}, sepVar...), ucfg.MetaData(ucfg.Meta{Source: "f.yml"}))...)
			var t struct {
				M map[string]interface{} `config:"m"`
			}
			err := c.Unpack(&t, sepVar...)
			return err == nil || !strings.Contains(err.Error(), "'m.q.1'"), fmt.Sprint(err)
		})
	}
	probes["O67"] = func() (bool, string) {
		return guard(func() (bool, string) {
			c, _ := ucfg.NewFrom(map[string]interface{}{"c": "${nope}"}, append(append([]ucfg.Option{}, sepVar...), ucfg.MetaData(ucfg.Meta{Source: "f.yml"}))...)
			_, err := c.CountField("c", sepVar...)
			e, ok := err.(ucfg.Error)
			return !ok || e.Reason() == nil || !strings.Contains(err.Error(), "'c'") || !strings.Contains(err.Error(), "f.yml"), fmt.Sprint(err)
		})
	}
	probes["O66"] = func() (bool, string) {
		return guard(func() (bool, string) {
			c, _ := ucfg.NewFrom(map[string]interface{}{"a": []int{3}})
			m := map[string][]int{"a": {1, 2}}
			err := c.Unpack(&m, ucfg.ReplaceArrValues)
			return err != nil || len(m["a"]) != 1, fmt.Sprint(err, " ", m)
		})
	}
	probes["O65"] = func() (bool, string) {
		return guard(func() (bool, string) {
			type in struct{ X, Y int }
			c, _ := ucfg.NewFrom(map[string]interface{}{"s": []interface{}{map[string]interface{}{"x": 9}}})
			t := struct {
				S []in `config:"s,replace"`
			}{S: []in{{1, 2}, {3, 4}}}
			err := c.Unpack(&t)
			return err != nil || len(t.S) != 1 || t.S[0].Y != 0, fmt.Sprint(err, " ", t.S)
		})
	}
	probes["O63"] = func() (bool, string) {
		return guard(func() (bool, string) {
			a, b := underOrders(func() string {
				c, _ := ucfg.NewFrom(map[string]interface{}{"svc": "${defaults}", "defaults": map[string]interface{}{"port": 80, "url": "h:${svc.port}"}}, sepVar...)
				var m map[string]interface{}
				err := c.Unpack(&m, sepVar...)
				return fmt.Sprint(err == nil)
			})
			return a != b, "Unpack succeeds under sorted / reversed enumeration: " + a + " / " + b
		})
	}
	probes["O64"] = func() (bool, string) {
		return guard(func() (bool, string) {
			a, b := underOrders(func() string {
				e, _ := ucfg.NewFrom(map[string]interface{}{"x": "${y}", "y": 5}, sepVar...)
				c, _ := ucfg.NewFrom(map[string]interface{}{"a": "${y}", "y": "${x:9}"}, sepVar...)
				var m map[string]interface{}
				c.Unpack(&m, append(append([]ucfg.Option{}, sepVar...), ucfg.Env(e))...)
				return fmt.Sprint(m["a"])
			})
			return a != b, "a under sorted / reversed enumeration: " + a + " / " + b
		})
	}
	probes["O62"] = func() (bool, string) {
		c, _ := ucfg.NewFrom(map[string]interface{}{"a": map[string]interface{}{"b": []int{1, 2}}})
		n, err := c.CountField("a.b", ucfg.PathSep("."))
		return err != nil || n != 2, fmt.Sprint(n, " ", err)
	}
	probes["O56"] = probePanics(func() {
		var t struct{ X ucfg.Initializer }
		ucfg.New().Unpack(&t)
	})
	probes["O57"] = func() (bool, string) {
		c := ucfg.New()
		err := c.SetChild("a", -1, c)
		return err == nil, fmt.Sprint(err)
	}
	probes["O58"] = probeBounded(func() {
		type node struct {
			V    int
			Next *node
		}
		n := &node{}
		n.Next = n
		c, _ := ucfg.NewFrom(map[string]interface{}{"v": 1})
		c.Unpack(n)
	})
	probes["O59"] = probeBounded(func() {
		c, _ := ucfg.NewFrom(map[string]interface{}{"a": []interface{}{"${a}"}}, ucfg.VarExp)
		var t struct{ A probeL }
		c.Unpack(&t, ucfg.VarExp)
	})
	probes["O60"] = probePanics(func() {
		c, _ := ucfg.NewFrom([]interface{}{1, 2})
		t := struct {
			X interface{} `config:",inline"`
		}{X: []int{7}}
		c.Unpack(&t)
	})
	probes["O61"] = probeBounded(func() {
		c, _ := ucfg.NewFrom(map[string]interface{}{"a": "x"})
		var t struct{ A probeL }
		c.Unpack(&t)
	})
	probes["O48"] = probeO48
	probes["O49"] = probeO49
	probes["O47"] = probeO47
	probes["O38"] = probePanics(func() { ucfg.New().SetChild("a", -1, nil) })
	probes["O39"] = probePanics(func() {
		c, _ := ucfg.NewFrom(map[string]interface{}{"m": map[string]interface{}{"a": 1}})
		var t struct{ M map[probeKey]int }
		c.Unpack(&t)
	})
	probes["O40"] = probePanics(func() {
		c, _ := ucfg.NewFrom(map[string]interface{}{"a": []int{1, 2}})
		var t struct {
			A [2]int `validate:"nonzero"`
		}
		c.Unpack(&t)
	})
	probes["O41"] = probePanics(func() {
		ucfg.NewFrom(map[string]interface{}{"r": *regexp.MustCompile("a+")})
	})
	probes["O42"] = probePanics(func() {
		c, _ := ucfg.NewFrom(map[string]interface{}{"m": map[string]interface{}{"a": map[string]interface{}{"x": 1}}, "i": map[string]interface{}{"x": 1}})
		type S struct{ X, Y int }
		t := struct {
			M map[string]S
			I interface{}
		}{M: map[string]S{"a": {Y: 2}}, I: S{Y: 2}}
		c.Unpack(&t)
	})
	probes["O43"] = probePanics(func() {
		c, _ := ucfg.NewFrom(map[string]interface{}{"m": map[string]interface{}{"a": []int{1, 2}}})
		s := []int{9}
		t := struct{ M map[string]*[]int }{M: map[string]*[]int{"a": &s}}
		c.Unpack(&t)
	})
	probes["O44"] = probePanics(func() {
		c, _ := ucfg.NewFrom(map[string]interface{}{"a": 1})
		var p *map[string]int
		c.Unpack(&p)
	})
	probes["O45"] = probePanics(func() {
		c, _ := ucfg.NewFrom(map[string]interface{}{"a": []int{2}})
		var t struct{ A *interface{} }
		c.Unpack(&t)
	})
	probes["O23"] = probeO23
	probes["O24"] = probeO24
}

func probeO23() (bool, string) {
	return guard(func() (bool, string) {
		c, _ := ucfg.NewFrom(map[string]interface{}{"a": ""})
		var t struct {
			A interface{} `validate:"nonzero"`
		}
		err := c.Unpack(&t)
		return err == nil, fmt.Sprintf("interface{} field with validate:nonzero, a: \"\": Unpack = %v", err)
	})
}

type probeDflt struct {
	A int `config:"a" validate:"min=1"`
}

func probeO24() (bool, string) {
	return guard(func() (bool, string) {
		c, _ := ucfg.NewFrom(map[string]interface{}{"a": 5})
		var t struct {
			D probeDflt `config:"d"`
		}
		err := c.Unpack(&t)
		if err == nil {
			return true, "a default violating min=1 was accepted"
		}
		return !strings.Contains(err.Error(), "'d.a'"), err.Error()
	})
}

type probeLevel string

func probeO22() (bool, string) {
	steps := 0
	zzsimhook.OnTick = func(string) {
		steps++
		if steps > 5000 {
			panic("Unpack into a named string type does not terminate")
		}
	}
	defer func() { zzsimhook.OnTick = nil }()
	return guard(func() (bool, string) {
		c, _ := ucfg.NewFrom(map[string]interface{}{"l": "info"})
		var t struct{ L probeLevel }
		err := c.Unpack(&t)
		return err != nil || t.L != "info", fmt.Sprint(err, t)
	})
}

type rejecting struct{}

func (rejecting) Validate() error { return fmt.Errorf("rejected") }

type initArr [2]int

func (a *initArr) InitDefaults() { a[0], a[1] = 7, 8 }

type primUnpacker int

func (u *primUnpacker) Unpack(i int64) error { *u = primUnpacker(i); return nil }

type heldUnpacker struct{ V interface{} }

func (u *heldUnpacker) Unpack(v interface{}) error { u.V = v; return nil }

func guard(f func() (bool, string)) (rep bool, detail string) {
	defer func() {
		if p := recover(); p != nil {
			rep, detail = true, fmt.Sprintf("panic: %v", p)
		}
	}()
	return f()
}

var sepVar = []ucfg.Option{ucfg.PathSep("."), ucfg.VarExp}

func probeO1() (bool, string) {
	return guard(func() (bool, string) {
		c, err := ucfg.NewFrom(map[string]interface{}{"a.-1": 1}, ucfg.PathSep("."))
		if err != nil {
			return false, "rejected: " + err.Error()
		}
		var m map[string]interface{}
		c.Unpack(&m)
		return false, fmt.Sprint(m)
	})
}

func probeO2() (bool, string) {
	return guard(func() (bool, string) {
		for _, in := range []string{"[", "{", "[a,", "{a:1,"} {
			if _, err := parse.Value(in); err == nil {
				return true, "accepted " + in
			}
		}
		return false, ""
	})
}

func probeO3() (bool, string) {
	return guard(func() (bool, string) {
		c, _ := ucfg.NewFrom(map[string]interface{}{"a": 1})
		var out interface{}
		err := c.Unpack(&out)
		return err == nil, fmt.Sprint(err)
	})
}

func probeO4() (bool, string) {
	return guard(func() (bool, string) {
		c, _ := ucfg.NewFrom(map[string]interface{}{"a": "x", "b": "${a}-${a}", "p": "${a}", "q": "${a}", "d": "${p}${q}"}, sepVar...)
		s, err := c.String("b", -1, sepVar...)
		if err != nil || s != "x-x" {
			return true, fmt.Sprintf("\"${a}-${a}\" with a=x reads %q, %v", s, err)
		}
		s, err = c.String("d", -1, sepVar...)
		if err != nil || s != "xx" {
			return true, fmt.Sprintf("diamond d=\"${p}${q}\" reads %q, %v", s, err)
		}
		return false, ""
	})
}

func probeO6() (bool, string) {
	return guard(func() (bool, string) {
		c, _ := ucfg.NewFrom(map[string]interface{}{"b": "${nope}", "cyc": "${cyc}"}, sepVar...)
		if s, err := c.String("b", -1, sepVar...); err == nil {
			return true, fmt.Sprintf("unresolvable ${nope} with no resolver reads %q, nil", s)
		}
		if s, err := c.String("cyc", -1, sepVar...); err == nil {
			return true, fmt.Sprintf("cyclic ${cyc} with no resolver reads %q, nil", s)
		}
		return false, ""
	})
}

// underOrders runs f under sorted and under reversed enumeration order.
func underOrders(f func() string) (string, string) {
	defer func() { zzsimhook.OnKeys = nil }()
	zzsimhook.OnKeys = nil
	a := f()
	zzsimhook.OnKeys = func(site string, n int) []int {
		p := make([]int, n)
		for i := range p {
			p[i] = n - 1 - i
		}
		return p
	}
	b := f()
	return a, b
}

func probeO7() (bool, string) {
	return guard(func() (bool, string) {
		a, b := underOrders(func() string {
			c, _ := ucfg.NewFrom(map[string]interface{}{"a": "${b}", "b": "${c}", "c": map[string]interface{}{"x": 1}}, sepVar...)
			return fmt.Sprint(c.FlattenedKeys(sepVar...))
		})
		return a != b, "FlattenedKeys under sorted / reversed enumeration: " + a + " / " + b
	})
}

func probeO8() (bool, string) {
	return guard(func() (bool, string) {
		a, b := underOrders(func() string {
			_, err := ucfg.NewFrom(map[string]interface{}{"a.b": 1, "a": map[string]interface{}{"b": 2}}, ucfg.PathSep("."))
			return fmt.Sprint(err)
		})
		if a != b {
			return true, "NewFrom({\"a.b\":1,\"a\":{\"b\":2}}) under sorted / reversed enumeration: " + a + " / " + b
		}
		a, b = underOrders(func() string {
			c, err := ucfg.NewFrom(map[string]interface{}{"a": map[string]interface{}{"a": 1}, "a.b": 2}, ucfg.PathSep("."), ucfg.ReplaceValues)
			if err != nil {
				return err.Error()
			}
			var m map[string]interface{}
			c.Unpack(&m)
			return fmt.Sprint(m)
		})
		return a != b, "NewFrom({\"a\":{\"a\":1},\"a.b\":2}, ReplaceValues) under sorted / reversed enumeration: " + a + " / " + b
	})
}

func probeO9() (bool, string) {
	return guard(func() (bool, string) {
		src, _ := ucfg.NewFrom(map[string]interface{}{"x": 1})
		dst := ucfg.New()
		dst.Merge(map[string]interface{}{"arr": []interface{}{src}})
		if src.Path(".") != "" || src.Parent() != nil {
			return true, "after dst.Merge({arr:[src]}) src.Path() = " + src.Path(".")
		}
		src2, _ := ucfg.NewFrom(map[string]interface{}{"x": 1})
		dst.Merge(map[string]interface{}{"k": src2})
		if src2.Path(".") != "" || src2.Parent() != nil {
			return true, "after dst.Merge({k: src}) src.Path() = " + src2.Path(".")
		}
		return false, ""
	})
}

func probeO10() (bool, string) {
	return guard(func() (bool, string) {
		c, _ := ucfg.NewFrom(map[string]interface{}{"a": []interface{}{map[string]interface{}{"x": 1}, map[string]interface{}{"y": 2}, map[string]interface{}{"z": 3}}})
		c.Remove("a", 0)
		ch, err := c.Child("a", 0)
		if err != nil {
			return true, err.Error()
		}
		keys := c.FlattenedKeys()
		if ch.Path(".") != "a.0" || strings.Join(keys, ",") != "a.0.y,a.1.z" {
			return true, fmt.Sprintf("after Remove(a,0): child 0 has Path %q, FlattenedKeys %v", ch.Path("."), keys)
		}
		return false, ""
	})
}

func probeO11() (bool, string) {
	return guard(func() (bool, string) {
		c, _ := ucfg.NewFrom(map[string]interface{}{"a": map[string]interface{}{"x": 1}})
		d := ucfg.New()
		child, _ := c.Child("a", -1)
		if err := d.SetChild("q", -1, child); err != nil {
			return false, "rejected: " + err.Error()
		}
		got, err := d.Child("q", -1)
		if err != nil {
			return true, err.Error()
		}
		if got.Path(".") != "q" || got.Parent() != d {
			return true, fmt.Sprintf("d.SetChild(\"q\", child-of-c): the node reachable as d.q reports Path %q and a Parent that is not d", got.Path("."))
		}
		return false, ""
	})
}

func probeO12() (bool, string) {
	return guard(func() (bool, string) {
		mk := func(v interface{}, l2 ...interface{}) map[string]interface{} {
			return map[string]interface{}{
				"x": map[string]interface{}{"l": l2, "y": map[string]interface{}{"l": l2}},
			}
		}
		a, _ := ucfg.NewFrom(mk(nil, 1, 2), ucfg.PathSep("."))
		err := a.Merge(mk(nil, 3), ucfg.PathSep("."), ucfg.FieldAppendValues("x.l"))
		if err != nil {
			return true, err.Error()
		}
		var m map[string]interface{}
		a.Unpack(&m)
		xl := fmt.Sprint(m["x"].(map[string]interface{})["l"])
		xyl := fmt.Sprint(m["x"].(map[string]interface{})["y"].(map[string]interface{})["l"])
		if xl != "[1 2 3]" {
			return true, "x.l = " + xl
		}
		if xyl != "[3 2]" {
			return true, "FieldAppendValues(\"x.l\") also applied at x.y.l: " + xyl
		}
		return false, ""
	})
}

func probeO13() (bool, string) {
	return guard(func() (bool, string) {
		fv := flag.NewFlagKeyValue(nil, true, ucfg.PathSep("."), ucfg.AppendValues)
		fv.Set("a=[1,2]")
		fv.Set("a=[3]")
		s := fv.String()
		return s != `{"a":[1,2,3]}`, "flag with AppendValues, a=[1,2], a=[3]: " + s
	})
}

func probeO16() (bool, string) {
	return guard(func() (bool, string) {
		c, _ := ucfg.NewFrom(map[string]interface{}{"a": 1})
		_, err := c.Remove("a", 0)
		if err == nil {
			return false, ""
		}
		if _, ok := err.(ucfg.Error); !ok {
			return true, fmt.Sprintf("Remove(\"a\",0) through a primitive returns %T %v", err, err)
		}
		return false, ""
	})
}

func probeO17() (bool, string) {
	return guard(func() (bool, string) {
		env, _ := ucfg.NewFrom(map[string]interface{}{"k": "envk"})
		c, _ := ucfg.NewFrom(map[string]interface{}{"f": "${k}"}, sepVar...)
		o := append(append([]ucfg.Option{}, sepVar...), ucfg.Env(env))
		s, err := c.String("f", -1, o...)
		return s != "envk" || err != nil, fmt.Sprintf("\"${k}\" with Env({k: envk}) reads %q, %v", s, err)
	})
}

func probeO18() (bool, string) {
	return guard(func() (bool, string) {
		c, _ := ucfg.NewFrom(map[string]interface{}{"a": []interface{}{1}})
		l, _ := c.Child("a", -1)
		l.Int("", -1)
		l.Int("", -2)
		if err := l.SetInt("", -2, 1); err == nil {
			return true, "SetInt at index -2 succeeded"
		}
		if err := l.SetInt("", 1<<40, 1); err == nil {
			return true, "SetInt at index 2^40 succeeded"
		}
		return false, ""
	})
}

func probeO19() (bool, string) {
	// a fatal stack overflow kills the probe process, which the driver counts as reproducing
	steps := 0
	zzsimhook.OnEnter = func(string) {
		steps++
		if steps > 1000000 {
			panic("FlattenedKeys does not terminate")
		}
	}
	defer func() { zzsimhook.OnEnter = nil }()
	return guard(func() (bool, string) {
		c, _ := ucfg.NewFrom(map[string]interface{}{"a": map[string]interface{}{"x": "${a}"}}, sepVar...)
		c.FlattenedKeys(sepVar...)
		return false, ""
	})
}

func probeO20() (bool, string) {
	steps := 0
	zzsimhook.OnEnter = func(string) {
		steps++
		if steps > 1000000 {
			panic("Merge does not terminate")
		}
	}
	defer func() { zzsimhook.OnEnter = nil }()
	return guard(func() (bool, string) {
		c, _ := ucfg.NewFrom(map[string]interface{}{"s": map[string]interface{}{"x": "${s}"}}, sepVar...)
		err := c.Merge(map[string]interface{}{"s": map[string]interface{}{"x": "${s}"}}, sepVar...)
		return false, fmt.Sprint(err)
	})
}

// O21: the outcome of one Unpack depends on enumeration order when the
// alternative operator tests a name that is still being evaluated: ${d:+x}
// looks d up without evaluating it, so whether d counts as set depends on
// whether d was reached through a reference (active) or read directly, and the
// per-call value cache keeps whichever came first.
func probeO21() (bool, string) {
	return guard(func() (bool, string) {
		a, b := underOrders(func() string {
			c, _ := ucfg.NewFrom(map[string]interface{}{"a": "${d}", "d": "${d:+v}"}, sepVar...)
			var m map[string]interface{}
			err := c.Unpack(&m, sepVar...)
			return fmt.Sprintf("a=%v d=%v %v", m["a"], m["d"], err)
		})
		return a != b, "Unpack of {a: \"${d}\", d: \"${d:+v}\"} under sorted / reversed enumeration: " + a + " / " + b
	})
}

// O25 (repaired): a cycle absorbed by a default made one Unpack depend on order.
func probeO25() (bool, string) {
	return guard(func() (bool, string) {
		a, b := underOrders(func() string {
			c, _ := ucfg.NewFrom(map[string]interface{}{"a": "${b}x", "b": "${a:d}"}, sepVar...)
			var m map[string]interface{}
			err := c.Unpack(&m, sepVar...)
			return fmt.Sprintf("a=%v b=%v %v", m["a"], m["b"], err)
		})
		return a != b, "Unpack of {a: \"${b}x\", b: \"${a:d}\"} under sorted / reversed enumeration: " + a + " / " + b
	})
}

func probeO26() (bool, string) {
	return guard(func() (bool, string) {
		_, err := ucfg.NewFrom(map[string]interface{}{"a": complex(1, 2)})
		_, err2 := ucfg.NewFrom(map[string]interface{}{"a": uintptr(1)})
		return err == nil || err2 == nil, fmt.Sprint(err, err2)
	})
}

func probeO27() (bool, string) {
	return guard(func() (bool, string) {
		src, _ := ucfg.NewFrom(map[string]interface{}{"a": 1})
		var z, z2 ucfg.Config
		if err := src.Unpack(&z); err != nil {
			return true, err.Error()
		}
		z2.SetInt("x", -1, 1)
		z2.Merge(src)
		src.Merge(z2)
		var z3 ucfg.Config
		z3.FlattenedKeys()
		z3.Remove("a", -1)
		return false, ""
	})
}

func probeO28() (bool, string) {
	return guard(func() (bool, string) {
		c, _ := ucfg.NewFrom(map[string]interface{}{"a": 1})
		var p *struct{ A int }
		var m map[string]interface{}
		err, err2 := c.Unpack(p), c.Unpack(m)
		return err == nil || err2 == nil, fmt.Sprint(err, err2)
	})
}

func probeO29() (bool, string) {
	return guard(func() (bool, string) {
		c, _ := ucfg.NewFrom(map[string]interface{}{"list": []interface{}{"x", "y"}, "a": "${list}", "b": "${list}"}, sepVar...)
		var t struct{ A, B []string }
		err := c.Unpack(&t, sepVar...)
		return err != nil || len(t.B) != 2, fmt.Sprint(err, t)
	})
}

// O30: next to a "**" option (and a second explicit option), an explicit option whose
// path runs through a list index is lost: the index entries of the handling tree are
// dropped when the wildcard is carried over at a list level.
func probeO30() (bool, string) {
	return guard(func() (bool, string) {
		a, _ := ucfg.NewFrom([]interface{}{map[string]interface{}{"a": 1}, map[string]interface{}{"a": 2}}, ucfg.PathSep("."))
		b := []interface{}{map[string]interface{}{"b": 4}}
		err := a.Merge(b, ucfg.PathSep("."), ucfg.FieldReplaceValues("0"), ucfg.FieldMergeValues("**.a"), ucfg.FieldMergeValues("b.b"))
		if err != nil {
			return true, err.Error()
		}
		var l []interface{}
		a.Unpack(&l)
		got := fmt.Sprint(l[0])
		return got != "map[b:4]", "FieldReplaceValues(\"0\") next to FieldMergeValues(\"**.a\"), (\"b.b\"): element 0 = " + got + " (must be replaced: map[b:4])"
	})
}

type probeV int

func (v probeV) Validate() error {
	if v < 0 {
		return fmt.Errorf("negative")
	}
	return nil
}

type probePI int

func (p *probePI) InitDefaults() { *p = -5 }
func (p probePI) Validate() error {
	if p < 0 {
		return fmt.Errorf("negative default")
	}
	return nil
}

func probeO31() (bool, string) {
	return guard(func() (bool, string) {
		c, _ := ucfg.NewFrom(map[string]interface{}{"m": map[string]interface{}{"p": 1}})
		t := struct{ M map[string]probeV }{M: map[string]probeV{"z": -1}}
		err := c.Unpack(&t)
		return err == nil, fmt.Sprint(err)
	})
}

func probeO32() (bool, string) {
	return guard(func() (bool, string) {
		c, _ := ucfg.NewFrom(map[string]interface{}{"x": 1, "l": []interface{}{nil}})
		t := struct {
			X int
			P probePI `config:"p"`
		}{}
		t2 := struct{ L []probePI }{}
		err, err2 := c.Unpack(&t), c.Unpack(&t2)
		return err == nil || err2 == nil, fmt.Sprint(err, err2)
	})
}

func probeO33() (bool, string) {
	return guard(func() (bool, string) {
		c, _ := ucfg.NewFrom(map[string]interface{}{"x": 1})
		sl := []int{1}
		t := struct {
			X int
			S *[]int `config:"s"`
		}{S: &sl}
		err := c.Unpack(&t)
		return err != nil, fmt.Sprint(err)
	})
}

func probeO34() (bool, string) {
	return guard(func() (bool, string) {
		c, _ := ucfg.NewFrom(map[string]interface{}{"x": 1})
		three, neg, empty := 3, -3, ""
		t := struct {
			X int
			A *int    `config:"a" validate:"min=5"`
			B *int    `config:"b" validate:"positive"`
			C *string `config:"c" validate:"nonzero"`
		}{A: &three}
		t2, t3 := t, t
		t2.A, t2.B = nil, &neg
		t3.A, t3.C = nil, &empty
		e1, e2, e3 := c.Unpack(&t), c.Unpack(&t2), c.Unpack(&t3)
		return e1 == nil || e2 == nil || e3 == nil, fmt.Sprint(e1, " / ", e2, " / ", e3)
	})
}

func probeO35() (bool, string) {
	return guard(func() (bool, string) {
		c, _ := ucfg.NewFrom(map[string]interface{}{"r": "ab+"})
		t := struct {
			R *regexp.Regexp `config:"r"`
		}{R: regexp.MustCompile("old")}
		err := c.Unpack(&t)
		return err != nil || t.R.String() != "ab+", fmt.Sprint(err, " ", t.R)
	})
}

func probeO36() (bool, string) {
	return guard(func() (bool, string) {
		c, _ := ucfg.NewFrom(map[string]interface{}{"d": "${t}", "t": 4, "e": "${f}", "f": "${t}"}, ucfg.VarExp)
		t := struct {
			D time.Duration `config:"d"`
			E time.Duration `config:"e"`
		}{}
		err := c.Unpack(&t, ucfg.VarExp)
		return err != nil || t.D != 4*time.Second || t.E != 4*time.Second, fmt.Sprint(err, " ", t.D, " ", t.E)
	})
}

func probeO37() (bool, string) {
	return guard(func() (bool, string) {
		out := ""
		bad := false
		for _, opts := range [][]ucfg.Option{
			{ucfg.PathSep("/"), ucfg.FieldAppendValues("c")},
			{ucfg.FieldAppendValues("a.c"), ucfg.PathSep(".")},
		} {
			c, _ := ucfg.NewFrom(map[string]interface{}{"c": []int{1}, "a": map[string]interface{}{"c": []int{1}}}, opts...)
			err := c.Merge(map[string]interface{}{"c": []int{2}, "a": map[string]interface{}{"c": []int{2}}}, opts...)
			var m map[string]interface{}
			c.Unpack(&m, opts...)
			out += fmt.Sprint(err, " ", m, "; ")
			l, _ := m["c"].([]interface{})
			if la, _ := m["a"].(map[string]interface{})["c"].([]interface{}); len(l) != 2 && len(la) != 2 {
				bad = true
			}
		}
		return bad, out
	})
}

type probeKey string

// probePanics: the defect shows as a panic of the scenario.
func probePanics(f func()) func() (bool, string) {
	return func() (rep bool, detail string) {
		defer func() {
			if p := recover(); p != nil {
				rep, detail = true, fmt.Sprint("panic: ", p)
			}
		}()
		f()
		return false, "returned"
	}
}

func probeO46() (bool, string) {
	// (runs in a goroutine with a deadline: the defect is a hang)
	done := make(chan string, 1)
	go func() {
		defer func() { recover() }()
		c, _ := ucfg.NewFrom(map[string]interface{}{"x": "${X}"}, ucfg.VarExp)
		var m map[string]interface{}
		err := c.Unpack(&m, ucfg.VarExp, ucfg.Resolve(func(name string) (string, parse.Config, error) {
			return "[${" + name + "}]", parse.DefaultConfig, nil
		}))
		done <- fmt.Sprint(err, m)
	}()
	select {
	case s := <-done:
		return false, s
	case <-time.After(2 * time.Second):
		return true, "no result within 2 s"
	}
}

type probeRec struct {
	X *probeRec `config:"x"`
}

func probeO47() (bool, string) {
	c, _ := ucfg.NewFrom(map[string]interface{}{"a": map[string]interface{}{"x": "${a}"}}, ucfg.VarExp)
	var t struct{ A probeRec }
	// bounded: on a tree with the defect the instrumented build stops the recursion with its step budget
	return guard(func() (bool, string) {
		err := c.Unpack(&t, ucfg.VarExp)
		return err == nil, fmt.Sprint(err)
	})
}

func probeO48() (bool, string) {
	return guard(func() (bool, string) {
		a, b := underOrders(func() string {
			_, e1 := ucfg.NewFrom(map[string]interface{}{"a": 1, "a.b": 2}, ucfg.PathSep("."))
			_, e2 := ucfg.NewFrom(map[string]interface{}{"a": 5, "a.0": nil}, ucfg.PathSep("."))
			r1, r2 := "<nil>", "<nil>"
			if e1 != nil {
				r1 = fmt.Sprint(e1.(ucfg.Error).Reason())
			}
			if e2 != nil {
				r2 = fmt.Sprint(e2.(ucfg.Error).Reason())
			}
			return r1 + " / " + r2
		})
		return a != b, a + " | " + b
	})
}

func probeO49() (bool, string) {
	return guard(func() (bool, string) {
		a, b := underOrders(func() string {
			c, _ := ucfg.NewFrom(map[string]interface{}{"a": map[string]interface{}{"x": 1}, "b": "${a}"}, ucfg.VarExp)
			err := c.Merge(map[string]interface{}{"a": map[string]interface{}{"z": 3}, "b": map[string]interface{}{"y": 2}}, ucfg.VarExp)
			var m map[string]interface{}
			c.Unpack(&m, ucfg.VarExp)
			return fmt.Sprint(err, " b=", m["b"])
		})
		return a != b, "sorted / reversed: " + a + " | " + b
	})
}

func probeO50() (bool, string) {
	return guard(func() (bool, string) {
		c, _ := ucfg.NewFrom(map[string]interface{}{"a": nil, "b": nil})
		c.Merge(c)
		t := struct{ A *struct{ X int } }{}
		c.Unpack(&t)
		src, _ := ucfg.NewFrom(map[string]interface{}{"b": map[string]interface{}{"x": 1}}, ucfg.MetaData(ucfg.Meta{Source: "two.yml"}))
		c.Merge(src)
		_, err := c.Int("b", -1)
		return t.A != nil || !strings.Contains(fmt.Sprint(err), "two.yml"), fmt.Sprint(t.A, " ", err)
	})
}

func probeO51() (bool, string) {
	return guard(func() (bool, string) {
		fv := flag.NewFlagKeyValue(nil, true, ucfg.PathSep("."))
		fv.Set("f=NaN")
		_ = fv.String()
		fv.Set("x=1")
		has, _ := fv.Config().Has("x", -1)
		return !has || fv.Error() != nil, fmt.Sprint("x set: ", has, ", Error() = ", fv.Error())
	})
}

func probeO52() (bool, string) {
	return guard(func() (bool, string) {
		c, _ := ucfg.NewFrom(map[string]interface{}{"l": "${m}", "m": "${n}", "n": []int{1, 2}}, ucfg.VarExp)
		var t struct{ L []int }
		err := c.Unpack(&t, ucfg.VarExp)
		return err != nil || len(t.L) != 2, fmt.Sprint(err, " ", t.L)
	})
}

type probeUV struct{ v int64 }

func (u *probeUV) Unpack(i int64) error { u.v = i; return nil }
func (u probeUV) Validate() error {
	if u.v < 0 {
		return fmt.Errorf("negative")
	}
	return nil
}

func probeO53() (bool, string) {
	return guard(func() (bool, string) {
		c, _ := ucfg.NewFrom(map[string]interface{}{"u": -1})
		var t struct{ U probeUV }
		err := c.Unpack(&t)
		return err == nil, fmt.Sprint(err)
	})
}

func probeO54() (bool, string) {
	return guard(func() (bool, string) {
		c, _ := ucfg.NewFrom(map[string]interface{}{"l": "${nope}"}, ucfg.VarExp, ucfg.MetaData(ucfg.Meta{Source: "a.yml"}))
		var t struct{ L []int }
		err := c.Unpack(&t, ucfg.VarExp)
		return err == nil || !strings.Contains(err.Error(), "a.yml"), fmt.Sprint(err)
	})
}

func probeO55() (bool, string) {
	return guard(func() (bool, string) {
		c, _ := ucfg.NewFrom(map[string]interface{}{"path": map[string]interface{}{"home": "/opt"}, "sel": "path.home", "v": "${${sel}}", "w": "${path.home}"}, ucfg.PathSep("."), ucfg.VarExp)
		v, err := c.String("v", -1, ucfg.VarExp)
		w, _ := c.String("w", -1, ucfg.VarExp)
		return err != nil || v != w, fmt.Sprint(v, " ", err, " / ", w)
	})
}

type probeL []probeL

// probeBounded: the defect shows as a scenario that does not come to an end - the hook at every
// function entry of the instrumented build stops it after 3*10^5 entries (well before the stack
// is exhausted) - or panics.
func probeBounded(f func()) func() (bool, string) {
	return func() (bool, string) {
		steps := 0
		zzsimhook.OnEnter = func(string) {
			steps++
			if steps > 300000 {
				panic("does not come to an end")
			}
		}
		defer func() { zzsimhook.OnEnter = nil }()
		return guard(func() (bool, string) {
			f()
			return false, "returned"
		})
	}
}

// probeSBSub: a slice field backed by an unexported array that is the first field of its struct (O91).
type probeSBInner struct {
	N int `validate:"min=1"`
}

type probeSBSub struct {
	buf   [2]probeSBInner
	Items []probeSBInner
}
