// Package engines maps property ids to the engine that decides them.
package engines

import (
	"harness/flags"
	"harness/hostile"
	"harness/order"
	"harness/sim"
	"harness/unpack"
	"harness/varexp"
	"harness/world"
)

// Engine runs one simulated run.
type Engine func(r *sim.R)

func steps(r *sim.R, quick, thorough int) int {
	if r.Tier == "thorough" {
		return thorough
	}
	return quick
}

// Lookup returns the engine for a property id, or nil.
func Lookup(prop string) Engine {
	if prop == "C10" {
		// E1 histories, and merges into destinations that hold references to their own sections
		return func(r *sim.R) {
			if r.T.Weighted([]int{7, 1}, "c10-family") == 1 {
				world.RefMerge(r)
				return
			}
			world.Run(r, world.Flavours["C10"], steps(r, 12, 30))
		}
	}
	if prop == "C16" {
		// E1 merge histories with per-field options, and sources whose value under the named path is a reference
		return func(r *sim.R) {
			if r.T.Weighted([]int{11, 1}, "c16-family") == 1 {
				world.RefPolicy(r)
				return
			}
			world.Run(r, world.Flavours["C16"], steps(r, 12, 30))
		}
	}
	if f, ok := world.Flavours[prop]; ok && prop != "C14" {
		return func(r *sim.R) { world.Run(r, f, steps(r, 12, 30)) }
	}
	switch prop {
	case "C19":
		return func(r *sim.R) { flags.Run(r, steps(r, 8, 14)) }
	case "C14":
		// E3's fault enumeration, and a slice of E1 rich in failing reads after element-moving histories
		return func(r *sim.R) {
			if r.T.Weighted([]int{3, 1}, "c14-family") == 0 {
				unpack.Run(r, prop)
			} else {
				world.Run(r, world.Flavours["C14"], steps(r, 12, 30))
			}
		}
	case "C13", "C04":
		return func(r *sim.R) { unpack.Run(r, prop) }
	case "C07":
		return func(r *sim.R) { hostile.Run(r) }
	case "C09":
		return func(r *sim.R) { order.Run(r, steps(r, 6, 24)) }
	case "C02", "C08":
		return func(r *sim.R) { varexp.Run(r, prop, steps(r, 6, 12)) }
	}
	return nil
}

// ProbeResult is the outcome of a known-finding probe.
type ProbeResult struct {
	ID         string `json:"id"`
	Known      bool   `json:"known"`
	Reproduces bool   `json:"reproduces"`
	Detail     string `json:"detail"`
}

// RunProbe runs a named deterministic scenario.
func RunProbe(id string) ProbeResult {
	if p, ok := probes[id]; ok {
		rep, detail := p()
		return ProbeResult{ID: id, Known: true, Reproduces: rep, Detail: detail}
	}
	return ProbeResult{ID: id}
}

var probes = map[string]func() (bool, string){}
