export GOFLAGS=-mod=mod
export GOPROXY=off
export GOSUMDB=off
export GOTOOLCHAIN=local

.PHONY: setup
setup:
	mkdir -p bin evidence replays
	go build -o bin/vsim ./cmd/vsim
