#!/usr/bin/env python3
"""Writes /verif/MANIFEST.json from the table below (kept as code so that checks can be added one at a time)."""
import json

NA = [
    ("C03", "Pure arithmetic on one value and one target kind: no schedule, fault seam, shared state or history can influence whether a conversion wraps; boundary-value enumeration is input testing, not simulation."),
    ("C05", "A single create->read round trip over input representations; the only simulator-ownable content - that insertion order of input keys decides merge-vs-duplicate - is decided for the same inputs by the C09 check."),
    ("C06", "Pure function of (struct type, value): Merge into an empty config followed by Unpack into a zero value; no schedule, fault or history. Deciding it is a generator over types, i.e. property-based testing."),
    ("C17", "parse.Value is a pure string->value function with no map enumeration, state, goroutine or callback; the quantifier is over the JSON language only."),
    ("C18", "Front-end agreement is differential input testing of three decoders; the only I/O is one ioutil.ReadFile with no seam and no partial-read logic in go-ucfg, and a failed read returns before any go-ucfg code runs."),
    ("C20", "Classification of one key string as index or name is a pure function of (string, MaxIdx, EnableNumKeys); no schedule, fault, history or drift."),
]

E1 = "E1-world"
CHECKS = {
    "C01": dict(engine=E1, design="6 (C01), 5 (E1)", cat="exploration",
        technique="deterministic simulation: seeded merge chains over aliased configs vs reference tree, simulator-chosen map enumeration order, tape shrinking + replay",
        text="Seeded simulation of merge chains (1..12 steps quick, 30 thorough) on a pool of aliased configs: operands of any shape incl. nil, empty containers, kind changes, nodes with both a dictionary and a list part; sources as map / iface-map / struct / typed / *Config / self; all five global policies, possibly different per link. After every step the generic Unpack of every live handle must equal the reference tree written from the statement. Exploration is the right level: the space of (tree pair, policy, order) is infinite and the failures of interest need <= 3 operations.",
        note="Trusts the reference merge in harness/model (written from the statement, Appendix A of DESIGN.md) and the instrumentation fidelity self-test."),
    "C16": dict(engine=E1, design="6 (C16), 5 (E1)", cat="exploration",
        technique="deterministic simulation: seeded merges with per-field policy options vs reference tree with policy as a function of the path",
        text="As C01, with 0..3 Field{Merge,Replace,Append,Prepend}Values options per merge whose paths are drawn from the operands' own node paths (so the same last name occurs at several depths), from absent paths, list indices, and '**.<name>' wildcards. The oracle is the reference merge with the policy looked up per path, i.e. literally 'the global policy everywhere except in the subtree at that path'.",
        note="Known finding O12 (subsequence matching of option paths) is avoided by the generator while it reproduces; explicit-inside-wildcard combinations and field options under a global ReplaceValues are not observed (statement silent)."),
    "C10": dict(engine=E1, design="6 (C10), 5 (E1), 4.5", cat="exploration",
        technique="deterministic simulation: histories on both sides of a merge, reflective fingerprint of the source before/after, share-nothing invariant on the object graphs",
        text="Histories in which merges take *Config sources (another pool member, a child handle, the destination itself, or one embedded in a map or slice) and are followed by writes, removals and merges on either side. Oracles: the source's complete internal state (fingerprint by reflection: contents, parent link identity, field names, unresolved expressions) is bit-identical before and after; destination and source share no mutable node right after the merge; every later operation on one side leaves the other equal to its reference tree.",
        note="The fingerprint reads unexported fields by reflection (no hook in /repo); structural views degrade to public observations if the internal layout is renamed."),
    "C12": dict(engine=E1, design="6 (C12), 5 (E1)", cat="exploration",
        technique="deterministic simulation: operation histories over aliased parent/child handles vs reference tree, per-step refinement check",
        text="Histories of Set*/SetChild/Remove/Merge/Child and reads through several live handles (root and children, also roots that were moved into another tree), with and without a path separator and with both spellings of an address. After every step every live handle's observable state equals the reference tree (read-your-write, frame condition, nil padding, shifting, live views in both directions); reads at drawn addresses (typed getters, Has, CountField, GetFields, IsDict/IsArray) are compared one by one; operations with addresses through a primitive must fail and leave the fingerprint unchanged.",
        note="Kind discipline of Appendix A: names only in nodes that have only ever been dictionaries, indices only in nodes that have only ever been lists; handles below the destination of a merge are dropped."),
    "C15": dict(engine=E1, design="6 (C15), 5 (E1), 4.5", cat="exploration",
        technique="deterministic simulation: element-moving histories with positional metadata checked as a per-step invariant (reflection + public API)",
        text="Histories biased to operations that move elements (remove from the front/middle of lists, prepend/append/replace merges, padding writes, attaching existing roots and - when finding O11 is repaired - configs that were attached elsewhere). Per-step invariants on reference-free configs without mixed nodes: stored (parent, field) of every node incl. primitive leaves equals its actual container and key; Path() and Parent() of every reachable container via Child navigation; FlattenedKeys equals the reference tree's non-nil primitive leaf paths; CompareConfigs equals the three-way partition of the reference trees' leaf sets.",
        note="Known finding O11 (SetChild of an attached child) is not generated while it reproduces."),
    "C19": dict(engine="E6-flags", design="6 (C19), 5 (E6)", cat="exploration",
        technique="deterministic simulation: Set histories with malformed arguments and loader faults at any position vs (config, first-error) model built from the library's own primitives",
        text="Histories of 1..8 (thorough 14) FlagValue.Set calls for key=value flags and file flags (simulated file table behind the FileLoader seam) with option sets drawn from PathSep, VarExp, the five merge policies, a field policy and MetaData; bare keys, empty values, empty keys, malformed values and I/O / nil-config / unknown-extension loader faults at any position, with further arguments after the fault. After every Set: Config() equals the sequential merge with the flag's options, Error() is and stays the first error, String() is the JSON of the accumulated config, the default config is written through.",
        note="The model composes the real NewFrom/Merge/parse.Value: the check decides the refinement statement, not the semantics of the building blocks (those are C01/C17)."),
    "C13": dict(engine="E3-unpack", design="6 (C13), 5 (E3)", cat="fault_enumeration",
        technique="deterministic simulation with exhaustive single-fault enumeration: every callback invocation (Validate / Unpack / tag validator) and every consumed setting x every data-fault kind of a generated (type, pre-fill, config) case is failed once; pre/post snapshot of the target",
        text="Per case a struct type is generated with reflect.StructOf (plus hand-written named types) from 34 field kinds - primitives, pointers, validated leaves, the Unpacker forms, slices with merge tags, fixed arrays, maps, interface{}, *Config capture, InitDefaults types, nested/pointer/slice/map-of structs, inline, unexported and ignored fields - together with a pre-filled value and a config mentioning a drawn subset of the fields, optionally produced by a history. The fault-free Unpack must yield exactly 'pre-fill overwritten at the mentioned fields, lists combined by the tag policy, InitDefaults applied'. Then EVERY fault point of the case is enumerated (not sampled): each callback invocation returns an error once; each consumed setting is corrupted once per applicable kind (unparsable, wrong type, out of range, wrong array length, object/primitive confusion, nested, required removed). Each must make Unpack fail and leave the struct passed in field-for-field as it was (pointers, maps and slices by identity, the exemption for shared map / pointee contents as stated).",
        note="Exhaustive per case over the fault points of that case; the cases themselves are sampled. The expected-value computation in harness/unpack/case.go is written from the statement."),
    "C14": dict(engine="E3-unpack", design="6 (C14), 5 (E3)", cat="fault_enumeration",
        technique="deterministic simulation with exhaustive single-fault enumeration on configs produced by histories; the faulted setting's path and source are known from the generator, not from the implementation's parent links",
        text="Same enumeration as C13 with configs that are direct, produced by a history that moves list elements (decoy removed from list fronts; lists assembled by a PrependValues merge) or re-homed through SetChild/Merge, with and without MetaData. For every single fault the error must be a ucfg.Error with non-nil Reason and Class, must name as a whole token the dotted path the generator assigns to the faulted setting (element paths for list/map elements; for a value that did not come from the config the enclosing absent setting may be named), and must mention the source when the faulted value was loaded with metadata. The typing half is additionally a monitor in every other engine (foreign observations).",
        note="As C13."),
    "C04": dict(engine="E3-unpack", design="6 (C04), 5 (E3)", cat="fault_enumeration",
        technique="deterministic simulation: an injected tag validator and instrumented Validate methods observe every traversal path; every validator invocation is enumerated as a fault point",
        text="SCOPED (DESIGN.md 6, C04). In scope: (a) no validator is skipped on any traversal path - after every successful Unpack the registered 'simcheck' tag validator must have seen the final value of every reachable field whose kind a built-in validator can reject, and every reachable value with a Validate method must have been validated, whether the value came from the config, the pre-fill or InitDefaults, through pointers, slices (incl. elements kept by append/prepend/merge), arrays, maps and inline fields; (b) every validator invocation of the case, failed once, makes Unpack fail with an error naming the field; (c) the built-in validators nonzero / positive / min / max (numbers, strings, durations with unit and unit-less bounds) on generated fields of int, int8, uint16, float32/64, string, duration, *int, *string, *duration, named-int and Initializer-primitive kinds, with values from the configuration, from pre-filled defaults (5, the zero value, -5) and from InitDefaults: a value-level reference decides from the expected result whether the call may succeed - if any reachable final value breaks its tag, Unpack must fail, name one of those fields and leave the target unchanged. Out of scope: exhaustive arithmetic of the built-in validators over all values and parameter spellings (a pure function of value and parameter); their meaning on lists / maps as a whole.",
        note="Struct-kind fields present in the config do not get tag validators run and no built-in validator can reject a struct value: not demanded."),
    "C07": dict(engine="hostile arguments (E1/E2/E3/E6 surfaces) + E5 lexer schedules", design="6 (C07), 4.4", cat="exploration",
        technique="deterministic simulation: run-wide monitors (panic, step budget = bounded liveness, worker-crash, allocation bound) over hostile arguments placed inside valid histories, plus tape-chosen interleavings of the splice lexer goroutine and its parser at every channel operation under testing/synctest with exact leak / deadlock detection at bubble exit",
        text="SCOPED (DESIGN.md 6, C07). Phase 1 (go1.23.5): hostile (name, idx) pairs - negative, huge, beyond MaxIdx, every integer spelling, separator-only names, wildcards - to every getter / setter / Has / Remove / Child / CountField in the middle of histories, under drawn PathSep / VarExp / MaxIdx / EnableNumKeys / EscapePath; hostile key strings in NewFrom / Merge inputs; unsupported and odd Unpack targets (non-pointers, nil pointers, *interface{}, zero Config, non-string-keyed maps, channels / functions / complex inside structs) and Merge sources; malformed splice strings under VarExp read through every entry point; malformed flag values under every parse.Config and flag arguments; small byte soups to the YAML / JSON / HJSON loaders. Oracles: no panic, no fatal runtime error (the worker's death is attributed to the run and replayed), every call returns within 3*10^5 instrumented events (and 8 s), no list longer than MaxIdx+1. Phase 2 (go1.26.8, synctest): NewFrom + String on strings from a grammar of splice expressions incl. every malformed shape, with rules R5/R6 active so that lexer goroutine and parser park in front of every send / receive / close / select and the tape decides who proceeds: same outcome under every schedule, and at bubble exit no goroutine may remain blocked (leaked lexer) and none may be deadlocked.",
        note="Out of scope: coverage-guided exploration of the three third-party decoders and of parse.Value's input language (fuzzing of pure functions). Known finding O20 (Merge that does not terminate on references to the enclosing object) is reported by its probe; cyclic Go structures as Merge sources are documented as unsupported by the library and not generated."),
    "C09": dict(engine="E4-order", design="6 (C09), 5 (E4)", cat="exploration",
        technique="deterministic simulation: the simulator owns every map enumeration in the library (AST-inserted seam); the same call is run from identical states under sorted, reversed and tape-drawn orders and the outcomes compared (metamorphic, no model)",
        text="Each case generates the arguments of one call - NewFrom or Merge on trees whose dictionaries are spelled nested, dotted, partly each, with lists as dotted index keys and (when it is not a known finding) one setting defined twice; or Unpack / FlattenedKeys / CompareConfigs / NewFrom on configs whose settings reference each other through generated expressions, Env configs and resolvers, with at most one failing setting when error kinds are compared - and executes it K=6 (thorough 24) times from identical initial states (the setup is rebuilt under the canonical order) under different enumeration schedules decided at all rewritten range-over-map and MapKeys sites. All outcomes must agree: success vs failure, kind of error (root reason), canonical resulting data, shape of the resulting internal graph.",
        note="Known finding O21 (an Unpack whose result depends on order when a cycle is absorbed, via the per-call value cache) is not generated while it reproduces. Third-party decoders iterate document order, not maps, and are outside."),
    "C11": dict(engine="E5-conc", design="6 (C11), 5 (E5), 4.3", cat="exploration",
        technique="deterministic simulation of reader interleavings: tasks parked at instrumented function entries and released one at a time by a tape-driven scheduler inside a testing/synctest bubble (quiescence detection), plus a free-running pass under the Go race detector; oracle = results equal to running alone + bit-identical fingerprint at every switch",
        text="2..4 reader tasks share one config (references, splices, Env configs, resolver answers that parse into objects and lists and spawn lexer goroutines, empty containers, captured *Config fields) and each performs 1..3 reads with options of its own (a private resolver, so cross-talk between in-flight reads is visible): Unpack generic and typed, getters, Child, Has, CountField, GetFields, Path, FlattenedKeys, and using the shared config as a merge source directly / in a map / in a slice followed by writes into the private copy. Solo pass: every task alone - the shared config's complete internal state (reflective fingerprint) must be unchanged. Serialized pass (go1.26.8, synctest): the tape draws <= 4 preemption points (task, function-entry index) and every release; at every switch the fingerprint equals the initial one, at the end every result equals the solo result, no goroutine is left blocked. Free-running pass: the same workload, all tasks released together, 3 repetitions, binary built with -race and GORACE=halt_on_error; a race report kills the process and is attributed to the run.",
        note="The interleaving of the free-running pass is not controlled (stated in the evidence); the serialized pass preempts at function granularity - a write and its undo between two function entries is left to the race detector. Determinism of the serialized pass is self-tested (30 processes, GOMAXPROCS 1/4/16)."),
    "C02": dict(engine="E2-varexp", design="6 (C02), 5 (E2)", cat="exploration",
        technique="deterministic simulation of the lookup environment: Env configs, resolver stack with per-read outages and empty answers, values drifting between reads, vs an expression model; expressions generated as trees",
        text="A root config with up to 7 settings (expressions generated as trees over literals, references, nested reference names, default/alternative/error operators and escapes; primitives; containers), 0..2 Env configs and 0..3 resolvers, with per-read resolver outages / empty answers and drift between reads (merge, remove, Env and store changes). Every read (String, typed getters, Child+Unpack, whole-root Unpack, Has, CountField, FlattenedKeys, CompareConfigs; on the root and through child configs) is compared with late-bound substitution in the order root > Env newest-first > resolvers newest-first; unresolvable references must be errors, never empty values.",
        note="Outcomes the statements leave open are not compared (DESIGN.md Appendix A): empty resolver answers to plain references, operators applied to containers, and values that depend on the library's per-call cache after an absorbed cycle."),
    "C08": dict(engine="E2-varexp", design="6 (C08), 5 (E2)", cat="exploration",
        technique="deterministic simulation: reference graphs incl. cycles read through every entry point under a step budget (bounded liveness) and simulator-chosen enumeration order, vs an explicit in-progress-set model",
        text="Same engine as C02 with reference graphs rich in self references, chains, diamonds, repeated uses and references inside defaults and names. Oracles: every read returns within the step budget (3*10^5 instrumented events, plus an 8 s wall-clock backstop per operation; the largest legitimate operation seen is reported); a cycle is reported exactly when the model re-enters a reference that is still being evaluated and neither a default nor a resolver that knows the name absorbs it; evaluations that never re-enter succeed with the substituted value (no false cycles).",
        note="As C02."),
}

def check(pid, c):
    return {
        "property_id": pid,
        "quick_cmd": "./bin/vsim check %s --tier quick" % pid,
        "thorough_cmd": "./bin/vsim check %s --tier thorough" % pid,
        "evidence_file": "/verif/evidence/%s.json" % pid,
        "replay_cmd_template": "./bin/vsim replay {path}",
        "engine": c["engine"],
        "level_claimed": {"category": c["cat"], "text": c["text"], "design_ref": "DESIGN.md section " + c["design"]},
        "level_note": c["note"],
        "technique": c["technique"],
    }

engines = {}
for pid, c in CHECKS.items():
    if c["engine"] in ("E1-world","E2-varexp","E3-unpack","E4-order","E5-conc","E6-flags"):
        engines.setdefault(c["engine"], []).append(pid)
engines.setdefault("E5-conc", []).append("C07")

ENGINE_INFO = {
    "E1-world": ("harness/world", "seeded histories over a pool of aliased configs vs reference tree (harness/model); per-step invariants"),
    "E2-varexp": ("harness/varexp", "config + simulated lookup environment (Env, resolvers with outages, drift) vs expression model"),
    "E3-unpack": ("harness/unpack", "reflect.StructOf targets with instrumented callbacks; exhaustive fault enumeration per case"),
    "E4-order": ("harness/order", "same call under many simulator-chosen map enumeration orders, metamorphic"),
    "E5-conc": ("harness/conc", "reader tasks parked/released one at a time under testing/synctest + free-running race-detector pass"),
    "E6-flags": ("harness/flags", "FlagValue.Set histories with faults vs (config, first error) model"),
}

m = {
    "version": 1,
    "setup_cmd": "make -C /verif setup",
    "hooks": {
        "guard": "verif",
        "enable": "none needed: every check instruments a scratch copy of /repo's working tree by AST rewrite at check time (rules R1-R6, DESIGN.md 4.2, /verif/instr); /repo carries no hook code, so there is no guard to switch",
        "baseline_off_cmd": "cd /repo && GOFLAGS=-mod=mod GOPROXY=off GOSUMDB=off GOTOOLCHAIN=local go test -json -vet=off -count=1 -timeout 25m ./...",
        "source_commits": [],
        "add_only": True,
    },
    "engines": [
        {"name": n, "path": ENGINE_INFO[n][0], "serves_properties": sorted(ps), "kind_free_text": ENGINE_INFO[n][1]}
        for n, ps in sorted(engines.items())
    ],
    "checks": [check(pid, CHECKS[pid]) for pid in sorted(CHECKS)],
    "notes": "All checks: deterministic simulation with fault injection; one choice tape per run derived from VERIF_SEED; violations are minimised and written to /verif/replays/*.json (replay: ./bin/vsim replay <file>). Exit 0 held / 1 VIOLATION / 2 infrastructure. Genuine defects repaired in /repo by 'fix:' commits and defects recorded instead are listed in /verif/known_findings.json (DESIGN.md section 10). Environment: VERIF_SEED, VERIF_TIER, VERIF_BUDGET_S, VERIF_WORKERS.",
    "not_applicable": [{"property_id": p, "reason": r} for p, r in NA],
}
claimed = set(CHECKS)
PENDING = {
}
for p, r in sorted(PENDING.items()):
    if p not in claimed:
        m["not_applicable"].append({"property_id": p, "reason": r})
json.dump(m, open("/verif/MANIFEST.json", "w"), indent=1)
print("checks:", sorted(claimed))
