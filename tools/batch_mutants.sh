#!/bin/bash
# usage: batch_mutants.sh <budget_s> <id:props> ...   e.g. C01:C01 C15:C15,C12
budget=$1; shift
for spec in "$@"; do
  id=${spec%%:*}; props=${spec#*:}
  for x in A B; do
    if [ -f /tmp/mut-$id/out/$x/patch.diff ]; then
      echo "--- $id $x"
      /verif/tools/try_mutant.sh /tmp/mut-$id/out/$x/patch.diff $budget ${props//,/ }
    fi
  done
done
