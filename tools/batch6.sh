#!/bin/bash
# usage: batch6.sh <budget_s> <id:props> ...   (wave 6 worktrees /tmp/mut6-<id>)
budget=$1; shift
for spec in "$@"; do
  id=${spec%%:*}; props=${spec#*:}
  for x in A B; do
    if [ -f /tmp/mut6-$id/out/$x/patch.diff ]; then
      echo "--- $id $x"
      /verif/tools/try_mutant.sh /tmp/mut6-$id/out/$x/patch.diff $budget ${props//,/ }
    fi
  done
done
