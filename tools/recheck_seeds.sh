#!/bin/bash
# usage: recheck_seeds.sh [budget_s] [name-glob]
# For every stored seeded change: (1) validity on the current HEAD in a scratch worktree
# (applies, suite passes, demo fails with / passes without), (2) the quick check of its property
# with the change applied to /repo (always reverted). Writes seeded/RESULTS.md.
export GOFLAGS=-mod=mod GOPROXY=off GOSUMDB=off GOTOOLCHAIN=local
budget=${1:-15}; glob=${2:-*}
# from a vp run snapshot (vp run --with-repo -- tools/recheck_seeds.sh): everything happens in the snapshots
if [ -n "$VP_RUN_REPO" ]; then export VSIM_REPO=$VP_RUN_REPO VSIM_VERIF=$(pwd); make setup >/dev/null 2>&1; fi
REPO=${VSIM_REPO:-/repo}; VERIF=${VSIM_VERIF:-/verif}
wt=/tmp/recheck-wt
git -C $REPO worktree remove --force $wt 2>/dev/null
git -C $REPO worktree add -q --detach $wt HEAD || exit 2
out=$VERIF/seeded/RESULTS.md
head=$(git -C $REPO log --format=%h -1)
{
echo "# Seeded changes against the checks (repository HEAD $head, quick tier with a ${budget} s search budget, $(date -u +%Y-%m-%dT%H:%MZ))"
echo
echo "| seeded change | property | valid on HEAD (applies / suite passes / demo fails with / passes without) | check result | first violation |"
echo "|---|---|---|---|---|"
} > $out.tmp
for d in $VERIF/seeded/$glob/; do
  n=$(basename $d); [ -f $d/patch.diff ] || continue   # (seeded/_invalidated/ holds changes a later repair made inert)
  prop=$(python3 -c "import json;print(json.load(open('$d/meta.json'))['breaks_property'])")
  valid="n/a"
  cd $wt && git checkout -q -- . && git clean -fdq
  if git apply $d/patch.diff 2>/dev/null; then
    s=FAIL; go build ./... >/dev/null 2>&1 && go test -vet=off -count=1 ./... >/dev/null 2>&1 && s=pass
    if [ -f $d/demo_test.go ]; then
      pkg=$(grep -m1 '^package ' $d/demo_test.go | awk '{print $2}'); case $pkg in ucfg|ucfg_test) dir=.;; *) dir=${pkg%_test};; esac
      cp $d/demo_test.go $dir/zz_demo_test.go
      w=passes; go test -vet=off -count=1 ./$dir >/dev/null 2>&1 || w=fails
      git checkout -q -- . ; wo=FAILS; go test -vet=off -count=1 ./$dir >/dev/null 2>&1 && wo=passes
      rm -f $dir/zz_demo_test.go
      valid="yes / $s / $w / $wo"
    else
      valid="yes / $s / (no sequential demo) / -"
    fi
  else
    valid="PATCH DOES NOT APPLY"
  fi
  cd $VERIF
  res=$(tools/try_mutant.sh $d/patch.diff $budget $prop 2>&1 | tail -1)
  code=$(echo "$res" | sed -n 's/.*exit=\([0-9]*\).*/\1/p')
  first=$(grep -m1 '^violation' /tmp/try_$prop.log | cut -c1-160 | tr '|' '/')
  case $code in 1) r="CAUGHT";; 0) r="**missed**";; *) r="exit $code";; esac
  echo "| $n | $prop | $valid | $r | $first |" >> $out.tmp
  echo "$n: $valid -> $r"
done
mv $out.tmp $out
git -C $REPO worktree remove --force $wt
