#!/bin/bash
# usage: try_mutant.sh <patch.diff> <budget_s> <prop> [<prop>...]
# Applies a seeded change to /repo, runs the quick checks, and always reverts.
export GOFLAGS=-mod=mod GOPROXY=off GOSUMDB=off GOTOOLCHAIN=local
patch=$1; budget=$2; shift 2
# VSIM_REPO / VSIM_VERIF: run against snapshots (vp run --with-repo) instead of /repo and /verif
REPO=${VSIM_REPO:-/repo}; VERIF=${VSIM_VERIF:-/verif}
cd $REPO || exit 2
if [ -n "$(git status --porcelain)" ]; then echo "$REPO not clean"; exit 2; fi
git apply "$patch" || { echo "patch does not apply"; exit 2; }
# the evidence files describe runs against the unchanged tree: keep them out of the way
bak=$(mktemp -d); cp -r $VERIF/evidence $bak/ 2>/dev/null
trap 'git -C $REPO checkout -- . ; git -C $REPO clean -fdq; rm -rf $VERIF/evidence; mv $bak/evidence $VERIF/evidence 2>/dev/null; rmdir $bak 2>/dev/null' EXIT
cd $VERIF
for p in "$@"; do
  VERIF_BUDGET_S=$budget ./bin/vsim check $p > /tmp/try_$p.log 2>&1
  code=$?
  echo "== $p exit=$code $(grep -c '^VIOLATION' /tmp/try_$p.log) violation line(s): $(grep '^violation' /tmp/try_$p.log | head -3 | cut -c1-220 | tr '\n' '|')"
done
