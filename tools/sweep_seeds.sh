#!/bin/bash
# usage (from a vp run snapshot): tools/sweep_seeds.sh <tier> <budget_s> "<seeds>" <props...>
export GOFLAGS=-mod=mod GOPROXY=off GOSUMDB=off GOTOOLCHAIN=local
tier=$1; budget=$2; seeds=$3; shift 3
make setup >/dev/null 2>&1
export VSIM_VERIF=$(pwd)
[ -n "$VP_RUN_REPO" ] && export VSIM_REPO=$VP_RUN_REPO
for seed in $seeds; do
for p in "$@"; do
  VERIF_BUDGET_S=$budget VERIF_SEED=$seed ./bin/vsim check $p --tier $tier > sweep_${p}_$seed.log 2>&1
  echo "SWEEP $p tier=$tier seed=$seed exit=$? $(grep '^vsim:' sweep_${p}_$seed.log | tail -1)"
  grep '^VIOLATION\|^violation\|infrastructure' sweep_${p}_$seed.log | head -5
done
done
