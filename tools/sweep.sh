#!/bin/bash
# usage (from a vp run snapshot): tools/sweep.sh <tier> <seed> <props...>
# Runs checks against the repository snapshot in $VP_RUN_REPO (or /repo), writing into this snapshot.
export GOFLAGS=-mod=mod GOPROXY=off GOSUMDB=off GOTOOLCHAIN=local
tier=$1; seed=$2; shift 2
make setup >/dev/null 2>&1
export VSIM_VERIF=$(pwd)
[ -n "$VP_RUN_REPO" ] && export VSIM_REPO=$VP_RUN_REPO
for p in "$@"; do
  VERIF_SEED=$seed ./bin/vsim check $p --tier $tier > sweep_${p}_${seed}.log 2>&1
  echo "SWEEP $p tier=$tier seed=$seed exit=$? $(grep '^vsim:' sweep_${p}_${seed}.log | tail -1)"
  grep '^VIOLATION\|^violation\|infrastructure' sweep_${p}_${seed}.log | head -5
done
