#!/bin/bash
# usage: confirm_seed.sh <mutdir-id> <A|B> <property> <seed-name> "<caught-by>"
# Confirms in the scratch worktree /tmp/mut-<id> that the change compiles, passes the suite,
# fails its demonstration and that the demonstration passes without it; then stores it.
export GOFLAGS=-mod=mod GOPROXY=off GOSUMDB=off GOTOOLCHAIN=local
id=$1; x=$2; prop=$3; name=$4; caught=$5
wt=${MUTROOT:-/tmp/mut}-$id; src=$wt/out/$x
[ -f $src/patch.diff ] || { echo "no patch"; exit 2; }
tmp=$(mktemp -d); cp -r $src/* $tmp/
cd $wt && git checkout -q -- . && git clean -fdq -e out
mv $wt/out $tmp/out_aside
pkg=$(grep -m1 '^package ' $tmp/demo_test.go | awk '{print $2}')
case $pkg in ucfg|ucfg_test) dir=.;; *) dir=${pkg%_test};; esac
res_suite_with=FAIL; res_demo_with=PASS; res_demo_without=FAIL
git apply $tmp/patch.diff || { echo "patch does not apply"; mv $tmp/out_aside $wt/out; exit 2; }
go build ./... && go test -vet=off -count=1 ./... >/dev/null 2>&1 && res_suite_with=PASS
cp $tmp/demo_test.go $dir/zz_demo_test.go
go test -vet=off -count=1 ./$dir >/dev/null 2>&1 || res_demo_with=FAIL
git checkout -q -- .
go test -vet=off -count=1 ./$dir >/dev/null 2>&1 && res_demo_without=PASS
rm -f $dir/zz_demo_test.go
mv $tmp/out_aside $wt/out
echo "$name: suite-with-change=$res_suite_with demo-with-change=$res_demo_with demo-without=$res_demo_without"
if [ $res_suite_with = PASS ] && [ $res_demo_with = FAIL ] && [ $res_demo_without = PASS ]; then
  d=/verif/seeded/$name; mkdir -p $d
  cp $tmp/patch.diff $d/patch.diff; cp $tmp/demo_test.go $d/demo_test.go; cp $tmp/notes.md $d/notes.md 2>/dev/null
  python3 - "$d" "$prop" "$name" "$dir" "$caught" <<'PY'
import json,sys
d,prop,name,pkgdir,caught=sys.argv[1:6]
notes=open(d+'/notes.md').read() if __import__('os').path.exists(d+'/notes.md') else ''
json.dump({"name":name,"breaks_property":prop,"origin":"independent sub-agent given only the property text and a scratch worktree",
 "needs_to_manifest":notes,"demo_package_dir":pkgdir,
 "confirmed":{"applies_and_compiles":True,"existing_suite_with_change":"pass","demo_with_change":"fail","demo_without_change":"pass",
   "how":"tools/confirm_seed.sh in the scratch worktree: git apply, go test ./..., demo copied in as zz_demo_test.go, git checkout, demo again"},
 "caught_by":caught}, open(d+'/meta.json','w'), indent=1)
PY
fi
rm -rf $tmp
