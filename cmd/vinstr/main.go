// Command vinstr instruments, in place, a scratch copy of a Go module.
//
//	vinstr <dir>
//
// It prints the instrumentation report as JSON on stdout. Exit status: 0 ok, 2 on any error.
package main

import (
	"encoding/json"
	"fmt"
	"os"

	"verif/instr"
)

func main() {
	if len(os.Args) != 2 {
		fmt.Fprintln(os.Stderr, "usage: vinstr <dir>")
		os.Exit(2)
	}
	rep, err := instr.Run(os.Args[1])
	if err != nil {
		fmt.Fprintln(os.Stderr, "vinstr:", err)
		os.Exit(2)
	}
	out, err := json.MarshalIndent(rep, "", "  ")
	if err != nil {
		fmt.Fprintln(os.Stderr, "vinstr:", err)
		os.Exit(2)
	}
	fmt.Println(string(out))
}
