package main

import (
	"bytes"
	"encoding/json"
	"fmt"
	"os"
	"path/filepath"
	"regexp"
	"strings"
)

// matcher is a declarative predicate over a minimised violation: every
// non-empty clause must hold.
type matcher struct {
	Oracle        []string          `json:"oracle,omitempty"`          // violation oracle is one of
	Op            []string          `json:"op,omitempty"`              // violation op is one of
	Detail        map[string]string `json:"detail,omitempty"`          // violation detail contains these key/values (value is a regexp)
	Message       string            `json:"message,omitempty"`         // regexp on the message
	TraceAll      []string          `json:"trace_all,omitempty"`       // each regexp matches some trace line
	TraceNone     []string          `json:"trace_none,omitempty"`      // no trace line matches any of these
	LastOpMatches string            `json:"last_op_matches,omitempty"` // regexp on the last operation line of the trace
}

type finding struct {
	ID          string   `json:"id"`
	Property    string   `json:"property"`
	Status      string   `json:"status"` // known | fixed
	What        string   `json:"what"`
	Probe       string   `json:"probe"`
	Matcher     *matcher `json:"matcher,omitempty"`
	Avoid       []string `json:"avoid,omitempty"`
	AlsoAvoidIn []string `json:"also_avoid_in,omitempty"`
	Commit      string   `json:"commit,omitempty"`
	Line        string   `json:"line,omitempty"` // the "fixed: property=<id> <commit> <what failed>" record
}

type knownFile struct {
	Findings []finding `json:"findings"`
}

func loadKnown() *knownFile {
	kf := &knownFile{}
	b, err := os.ReadFile(filepath.Join(verifDir, "known_findings.json"))
	if err != nil {
		return kf
	}
	if err := json.Unmarshal(b, kf); err != nil {
		infra("known_findings.json unreadable: %v", err)
	}
	return kf
}

func (k *knownFile) forProperty(p string) []finding {
	var out []finding
	for _, f := range k.Findings {
		if f.Property == p {
			out = append(out, f)
		}
	}
	return out
}

func reMatch(re, s string) bool {
	r, err := regexp.Compile(re)
	if err != nil {
		infra("bad regexp %q in known_findings.json: %v", re, err)
	}
	return r.MatchString(s)
}

func in(list []string, s string) bool {
	if len(list) == 0 {
		return true
	}
	for _, x := range list {
		if x == s {
			return true
		}
	}
	return false
}

// match returns the known (unfixed) finding of this property that the
// minimised violation is an instance of, or nil.
func (k *knownFile) match(prop string, r *singleResult) *finding {
	if r.Violation == nil {
		return nil
	}
	for i := range k.Findings {
		f := &k.Findings[i]
		if f.Property != prop || f.Status != "known" || f.Matcher == nil {
			continue
		}
		m := f.Matcher
		if !in(m.Oracle, r.Violation.Oracle) || !in(m.Op, r.Violation.Op) {
			continue
		}
		ok := true
		for key, re := range m.Detail {
			if !reMatch(re, r.Violation.Detail[key]) {
				ok = false
			}
		}
		if m.Message != "" && !reMatch(m.Message, r.Violation.Message) {
			ok = false
		}
		for _, re := range m.TraceAll {
			hit := false
			for _, l := range r.Trace {
				if reMatch(re, l) {
					hit = true
				}
			}
			if !hit {
				ok = false
			}
		}
		for _, re := range m.TraceNone {
			for _, l := range r.Trace {
				if reMatch(re, l) {
					ok = false
				}
			}
		}
		if m.LastOpMatches != "" {
			last := ""
			for _, l := range r.Trace {
				if !strings.Contains(l, "VIOLATION") {
					last = l
				}
			}
			if !reMatch(m.LastOpMatches, last) {
				ok = false
			}
		}
		if ok {
			return f
		}
	}
	return nil
}

type probeResult struct {
	ID         string `json:"id"`
	Known      bool   `json:"known"`
	Reproduces bool   `json:"reproduces"`
	Detail     string `json:"detail"`
}

// runProbe executes a named deterministic scenario in a fresh worker process.
// A probe that kills the process counts as reproducing (the defect is a crash).
func (b *build) runProbe(id string) probeResult {
	cmd := b.plainCommand("-probe", id)
	cmd.Env = append(cmd.Env, "GOTRACEBACK=single")
	var out, errb bytes.Buffer
	cmd.Stdout = &out
	cmd.Stderr = &errb
	err := cmd.Run()
	if err != nil {
		return probeResult{ID: id, Known: true, Reproduces: true, Detail: "probe process died: " + tail(errb.String(), 12)}
	}
	var pr probeResult
	if e := decodeFirst(out.Bytes(), &pr); e != nil {
		infra("probe %s: unreadable output %q", id, out.String())
	}
	if !pr.Known {
		infra("known_findings.json names probe %q which the harness does not have", id)
	}
	return pr
}

func writeProbeReplay(prop string, k finding, pr probeResult, b *build) string {
	path := filepath.Join(verifDir, "replays", fmt.Sprintf("%s-probe-%s.json", prop, k.ID))
	rf := map[string]interface{}{
		"property": prop, "engine": "probe", "probe": k.Probe, "finding": k.ID,
		"violation": map[string]string{"oracle": "fixed-finding-regressed", "op": k.Probe, "message": pr.Detail},
		"what":      k.What, "tree": map[string]string{"head": b.head, "dirty_sha": b.dirty},
	}
	writeJSON(path, rf)
	return path
}

// claimed reports whether MANIFEST.json registers a check for the property
// (or whether the harness at least has an engine, during development).
func claimed(prop string) bool {
	return engineOf(prop) != ""
}

func engineOf(prop string) string {
	switch prop {
	case "C01", "C10", "C12", "C15", "C16":
		return "E1-world"
	case "C02", "C08":
		return "E2-varexp"
	case "C04", "C13", "C14":
		return "E3-unpack"
	case "C09":
		return "E4-order"
	case "C11":
		return "E5-conc"
	case "C07":
		return "E1..E6 monitors + E5-lexer"
	case "C19":
		return "E6-flags"
	}
	return ""
}
