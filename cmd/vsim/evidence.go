package main

import (
	"encoding/json"
	"fmt"
	"os"
	"path/filepath"
	"sort"
	"strings"
	"time"
)

var levelOf = map[string]string{
	"C04": "fault_enumeration", "C13": "fault_enumeration", "C14": "fault_enumeration",
}

func level(prop string) string {
	if l, ok := levelOf[prop]; ok {
		return l
	}
	return "exploration"
}

var ruleOf = map[string]string{
	"E1-world": "each run = one tape drawn from splitmix64(hash(VERIF_SEED, property, run index)); the tape draws the run's configuration vector (separator, depth/width bounds, pool size, enumeration-order policy, nil/empty values) and then a history of operations (create / merge / set / set-child / remove / child / reads / illegal addresses) over a pool of aliased configs, checked against the reference tree after every step. A run is non-trivial if it executed >= 2 state-changing operations or >= 1 injected fault fired; distinct = distinct hash of the complete choice sequence (counted exactly, union over workers)",
}

func mergeCounts(sums []summary, pick func(summary) map[string]int) map[string]int {
	out := map[string]int{}
	for _, s := range sums {
		for k, v := range pick(s) {
			out[k] += v
		}
	}
	return out
}

func writeEvidence(prop, tier string, seed int64, b *build, sr *searchResult, samples []interface{}, avoid, knownHit []string, violations int, wall float64) {
	runs, nontrivial := 0, 0
	var logical, stateOps, maxOp int64
	first, last := -1, -1
	for _, s := range sr.sums {
		runs += s.Runs
		nontrivial += s.Nontrivial
		logical += s.Logical
		stateOps += s.StateOps
		if s.MaxOpSteps > maxOp {
			maxOp = s.MaxOpSteps
		}
		if s.Runs > 0 {
			if first < 0 || s.FirstRun < first {
				first = s.FirstRun
			}
			if s.LastRun > last {
				last = s.LastRun
			}
		}
	}
	faults := mergeCounts(sr.sums, func(s summary) map[string]int { return s.Faults })
	probes := mergeCounts(sr.sums, func(s summary) map[string]int { return s.Probes })
	foreign := mergeCounts(sr.sums, func(s summary) map[string]int { return s.Foreign })
	var stuck []string
	for _, p := range expectedProbes[prop] {
		if probes[p] == 0 {
			stuck = append(stuck, p)
		}
	}
	sort.Strings(stuck)
	eng := engineOf(prop)
	rule := ruleOf[eng]
	if r, ok := ruleOfProp[prop]; ok {
		rule = r
	}
	if len(samples) == 0 {
		samples = []interface{}{"(no sample could be re-executed)"}
	}
	distinct := sr.traces
	cov := map[string]interface{}{
		"evaluations":             max(runs, 1),
		"distinct_nontrivial":     distinct,
		"nontrivial_runs":         nontrivial,
		"rule":                    rule,
		"samples":                 samples,
		"exhaustive":              false,
		"runs_per_hour":           int(float64(runs) / maxf(sr.wall, 0.001) * 3600),
		"seeds":                   map[string]interface{}{"verif_seed": seed, "run_index_first": first, "run_index_last": last, "workers": len(sr.sums)},
		"logical_steps":           logical,
		"logical_steps_note":      "go-ucfg has no clock, timers, network or disk; simulated time is reported as logical steps = instrumented function entries + loop iterations executed inside the library",
		"max_steps_one_operation": maxOp,
		"step_budget":             300000,
		"state_changing_ops":      stateOps,
		"faults_fired":            faults,
		"probes":                  probes,
		"probes_stuck_at_zero":    stuck,
		"distinct_states":         sr.states,
		"distinct_schedules":      sr.scheds,
		"distinct_measure":        "states = hash of the canonical reference state after each step; schedules = hash of the sequence of (enumeration site, size, permutation) decisions of a run (for C11 also the release sequence of tasks)",
		"foreign_observations":    foreign,
		"components": map[string]interface{}{
			"real": []string{"all of go-ucfg (root package, parse, diff, flag, cfgutil, yaml/json/hjson front-ends) compiled from /repo's working tree after the mechanical instrumentation R1-R6", "reflect, strconv and the rest of the standard library"},
			"stub": stubsOf(prop),
		},
		"toolchain":       toolchainOf(prop),
		"instrumentation": b.report.Sites,
		"known_findings":  knownHit,
		"avoid":           avoid,
		"tree":            map[string]string{"head": b.head, "dirty_sha": b.dirty},
		"build_s":         b.buildS,
		"search_wall_s":   sr.wall,
	}
	if phases != nil {
		cov["phases"] = phases
	}
	ev := map[string]interface{}{
		"property_id": prop,
		"tier":        tier,
		"seed":        seed,
		"level":       level(prop),
		"coverage":    cov,
		"assumptions": assumptionsOf(prop),
		"wall_s":      wall,
		"violations":  violations,
		"written_at":  time.Now().UTC().Format(time.RFC3339),
	}
	path := filepath.Join(verifDir, "evidence", prop+".json")
	writeJSON(path, ev)
	// self-validate the required keys (the schema's generic block)
	bts, _ := os.ReadFile(path)
	var chk struct {
		Coverage struct {
			Evaluations int           `json:"evaluations"`
			Distinct    int           `json:"distinct_nontrivial"`
			Samples     []interface{} `json:"samples"`
		} `json:"coverage"`
	}
	json.Unmarshal(bts, &chk)
	if chk.Coverage.Evaluations < 1 || len(chk.Coverage.Samples) < 1 {
		infra("evidence file %s would not validate", path)
	}
	if chk.Coverage.Distinct < 2 {
		fmt.Fprintf(os.Stderr, "vsim: warning: only %d distinct non-trivial cases explored\n", chk.Coverage.Distinct)
	}
	if len(stuck) > 0 {
		fmt.Fprintf(os.Stderr, "vsim: warning: probes stuck at zero: %s\n", strings.Join(stuck, "; "))
	}
}

func maxf(a, b float64) float64 {
	if a > b {
		return a
	}
	return b
}

func stubsOf(prop string) []string {
	switch engineOf(prop) {
	case "E1-world":
		return []string{"the callers: a simulated application holding several aliased handles and issuing the generated history", "input values (Go maps, slices, structs, configs) rendered from generated abstract trees"}
	}
	return []string{"simulated environment (see DESIGN.md 4.2)"}
}

func toolchainOf(prop string) string {
	if needsE5(prop) {
		return "go1.26.8 (testing/synctest) for the serialized interleavings and the race-detector pass"
	}
	return "go1.23.5 (the repository's toolchain)"
}

func assumptionsOf(prop string) []string {
	a := []string{
		"the mechanical instrumentation of the scratch copy preserves semantics except for map enumeration order (checked by `vsim selftest fidelity`: the repository's own suite passes inside the instrumented copy under native, reversed and random order)",
		"sampling: a clean batch is evidence, not proof; bounds are generator limits (depth <= 4, width <= 4, history <= 12 quick / 30 thorough)",
	}
	switch engineOf(prop) {
	case "E1-world":
		a = append(a, "the reference tree (harness/model) states what the property statement says; corners the statement leaves open are not observed (DESIGN.md Appendix A)")
	}
	return a
}

// expectedProbes lists, per property, the rare conditions a run of the check
// is expected to reach; one stuck at zero is reported in the evidence.
var expectedProbes = map[string][]string{
	"C12": {"set: write past the end pads with nils", "remove: shifted >= 1 later list element", "child: handle is a live view of a sub-tree", "setchild: caller keeps a live handle to the attached config", "set: primitive replaces a container"},
	"C01": {"merge: primitive over container", "merge: container over primitive", "merge: nil in B keeps container of A", "merge: prepend moved existing elements", "merge: append/prepend onto non-empty list", "merge: source and destination alias (self-merge)"},
	"C16": {"merge: per-field policy applied"},
	"C10": {"merge: *Config source re-observed after the merge"},
	"C15": {"remove: shifted an element that has a live handle", "merge: prepend moved existing elements", "diff: CompareConfigs evaluated"},
}

var ruleOfProp = map[string]string{}
