package main

import (
	"encoding/json"
	"fmt"
	"os"
	"path/filepath"
	"sort"
	"strings"
	"time"
)

var levelOf = map[string]string{
	"C04": "fault_enumeration", "C13": "fault_enumeration", "C14": "fault_enumeration",
}

func level(prop string) string {
	if l, ok := levelOf[prop]; ok {
		return l
	}
	return "exploration"
}

var ruleOf = map[string]string{
	"E2-varexp": "each run = one tape: a root config whose settings are generated expression trees / primitives / containers, 0..2 Env configs, 0..3 resolvers; then 1..6 (thorough 12) reads through drawn entry points with per-read resolver outages / empty answers and drift (merge, remove, Env and store changes) between reads, each compared with the expression model. Non-trivial: >= 2 state-changing operations (setup counts as one; drift steps) or >= 1 injected fault fired (outage, empty answer, unresolvable / cyclic / operator-error read); distinct = distinct hash of the complete choice sequence",
	"E3-unpack": "each run = one case: a generated struct type (34 field kinds), a pre-fill, a config mentioning a drawn subset of fields (optionally produced by a history), then the fault-free Unpack and EVERY fault point of the case once: each callback invocation returning an error, each consumed setting corrupted once per applicable kind. Non-trivial: every case executes >= 2 operations and its fault points; distinct = distinct hash of the choice sequence (type + pre-fill + config + history)",
	"E4-order":  "each run = one case (NewFrom / Merge on trees with nested, dotted and partly-dotted spellings; Unpack / FlattenedKeys / CompareConfigs / NewFrom on configs with references; typed Unpack fault-free or with one corrupted setting) executed under K schedules (sorted, reversed, K-2 tape-drawn) from identical initial states. Non-trivial: every case; distinct = distinct hash of the choice sequence incl. the drawn permutations",
	"E5-conc":   "each run = one tape: a shared config, 2..4 reader tasks with 1..3 reads each and options of their own, a preemption plan of <= 4 (task, function-entry index) points, and every release decision. Serialized pass inside a synctest bubble + free-running pass under -race. Non-trivial: every run (>= 2 tasks); distinct = distinct hash of the choice sequence; distinct_schedules = distinct release sequences (task, step) of the serialized pass",
	"E6-flags":  "each run = one tape: a flag (key=value or file flavour, option set, default config or not, sometimes registered in a flag.FlagSet) and a history of 1..8 (thorough 14) Set calls with malformed arguments and loader faults at any position. Non-trivial: >= 2 accepted arguments or >= 1 fault; distinct = distinct hash of the choice sequence",
	"hostile arguments (E1/E2/E3/E6 surfaces) + E5 lexer schedules": "phase 1: each run = one tape drawing a family (accessors with hostile name/index pairs inside a history, hostile keys, odd Unpack targets / Merge sources, splice soups under VarExp, value soups under every parse.Config and as flag arguments, byte soups to the three loaders); phase 2: one splice string from a grammar incl. malformed shapes evaluated under a tape-chosen lexer/parser schedule at every channel operation. Non-trivial: every run (each injects >= 1 hostile argument); distinct = distinct hash of the choice sequence",
	"E1-world": "each run = one tape drawn from splitmix64(hash(VERIF_SEED, property, run index)); the tape draws the run's configuration vector (separator, depth/width bounds, pool size, enumeration-order policy, nil/empty values) and then a history of operations (create / merge / set / set-child / remove / child / reads / illegal addresses) over a pool of aliased configs, checked against the reference tree after every step. A run is non-trivial if it executed >= 2 state-changing operations or >= 1 injected fault fired; distinct = distinct hash of the complete choice sequence (counted exactly, union over workers)",
}

func mergeCounts(sums []summary, pick func(summary) map[string]int) map[string]int {
	out := map[string]int{}
	for _, s := range sums {
		for k, v := range pick(s) {
			out[k] += v
		}
	}
	return out
}

func writeEvidence(prop, tier string, seed int64, b *build, sr *searchResult, samples []interface{}, avoid, knownHit []string, violations int, wall float64) {
	runs, nontrivial := 0, 0
	var logical, stateOps, maxOp int64
	first, last := -1, -1
	for _, s := range sr.sums {
		runs += s.Runs
		nontrivial += s.Nontrivial
		logical += s.Logical
		stateOps += s.StateOps
		if s.MaxOpSteps > maxOp {
			maxOp = s.MaxOpSteps
		}
		if s.Runs > 0 {
			if first < 0 || s.FirstRun < first {
				first = s.FirstRun
			}
			if s.LastRun > last {
				last = s.LastRun
			}
		}
	}
	faults := mergeCounts(sr.sums, func(s summary) map[string]int { return s.Faults })
	probes := mergeCounts(sr.sums, func(s summary) map[string]int { return s.Probes })
	foreign := mergeCounts(sr.sums, func(s summary) map[string]int { return s.Foreign })
	var stuck []string
	for _, p := range expectedProbes[prop] {
		if probes[p] == 0 {
			stuck = append(stuck, p)
		}
	}
	sort.Strings(stuck)
	eng := engineOf(prop)
	rule := ruleOf[eng]
	if r, ok := ruleOfProp[prop]; ok {
		rule = r
	}
	if len(samples) == 0 {
		samples = []interface{}{"(no sample could be re-executed)"}
	}
	distinct := sr.traces
	cov := map[string]interface{}{
		"evaluations":                          max(runs, 1),
		"distinct_nontrivial":                  distinct,
		"nontrivial_runs":                      nontrivial,
		"rule":                                 rule,
		"samples":                              samples,
		"exhaustive":                           false,
		"runs_per_hour":                        int(float64(runs) / maxf(sr.wall, 0.001) * 3600),
		"seeds":                                map[string]interface{}{"verif_seed": seed, "run_index_first": first, "run_index_last": last, "workers": len(sr.sums)},
		"logical_steps":                        logical,
		"logical_steps_note":                   "go-ucfg has no clock, timers, network or disk; simulated time is reported as logical steps = instrumented function entries + loop iterations executed inside the library",
		"max_steps_one_operation":              maxOp,
		"step_budget":                          300000,
		"state_changing_ops":                   stateOps,
		"faults_fired":                         faults,
		"worker_deaths_outside_the_simulation": sr.notes,
		"probes":                               probes,
		"probes_stuck_at_zero":                 stuck,
		"distinct_states":                      sr.states,
		"distinct_schedules":                   sr.scheds,
		"distinct_measure":                     "states = hash of the canonical reference state after each step; schedules = hash of the sequence of (enumeration site, size, permutation) decisions of a run (for C11 also the release sequence of tasks)",
		"foreign_observations":                 foreign,
		"components": map[string]interface{}{
			"real": []string{"all of go-ucfg (root package, parse, diff, flag, cfgutil, yaml/json/hjson front-ends) compiled from /repo's working tree after the mechanical instrumentation R1-R6", "reflect, strconv and the rest of the standard library"},
			"stub": stubsOf(prop),
		},
		"toolchain":       toolchainOf(prop),
		"instrumentation": b.report.Sites,
		"known_findings":  knownHit,
		"avoid":           avoid,
		"tree":            map[string]string{"head": b.head, "dirty_sha": b.dirty},
		"build_s":         b.buildS,
		"search_wall_s":   sr.wall,
	}
	if phases != nil {
		cov["phases"] = phases
	}
	ev := map[string]interface{}{
		"property_id": prop,
		"tier":        tier,
		"seed":        seed,
		"level":       level(prop),
		"coverage":    cov,
		"assumptions": assumptionsOf(prop),
		"wall_s":      wall,
		"violations":  violations,
		"written_at":  time.Now().UTC().Format(time.RFC3339),
	}
	path := filepath.Join(verifDir, "evidence", prop+".json")
	writeJSON(path, ev)
	// self-validate the required keys (the schema's generic block)
	bts, _ := os.ReadFile(path)
	var chk struct {
		Coverage struct {
			Evaluations int           `json:"evaluations"`
			Distinct    int           `json:"distinct_nontrivial"`
			Samples     []interface{} `json:"samples"`
		} `json:"coverage"`
	}
	json.Unmarshal(bts, &chk)
	if chk.Coverage.Evaluations < 1 || len(chk.Coverage.Samples) < 1 {
		infra("evidence file %s would not validate", path)
	}
	if chk.Coverage.Distinct < 2 {
		fmt.Fprintf(os.Stderr, "vsim: warning: only %d distinct non-trivial cases explored\n", chk.Coverage.Distinct)
	}
	if len(stuck) > 0 {
		fmt.Fprintf(os.Stderr, "vsim: warning: probes stuck at zero: %s\n", strings.Join(stuck, "; "))
	}
}

func maxf(a, b float64) float64 {
	if a > b {
		return a
	}
	return b
}

func stubsOf(prop string) []string {
	switch engineOf(prop) {
	case "E1-world":
		return []string{"the callers: a simulated application holding several aliased handles and issuing the generated history", "input values (Go maps, slices, structs, configs) rendered from generated abstract trees"}
	case "E2-varexp":
		return []string{"resolvers (simulated stores with per-read outages and empty answers)", "Env configs' contents and their drift", "the caller issuing reads and merges"}
	case "E3-unpack":
		return []string{"the user code attached to target types: Validate / Unpack / InitDefaults methods and the registered 'simcheck' tag validator (fail on command of the simulator)", "target types and pre-filled values"}
	case "E4-order":
		return []string{"the runtime's choice of map enumeration order (owned by the simulator at all rewritten sites)", "resolvers, Env configs (as E2)", "callbacks of target types (as E3)"}
	case "E5-conc":
		return []string{"the goroutine scheduler for reader tasks (serialized pass: park/release by tape; free-running pass: the real scheduler, uncontrolled)", "per-task resolvers", "the reader tasks"}
	case "E6-flags":
		return []string{"FileLoaders and the file table they serve (I/O errors, nil configs, unknown files)", "the command line (sequence of Set calls / FlagSet.Parse)"}
	}
	return []string{"callers passing hostile arguments", "phase 2: the goroutine scheduler between the splice lexer and its parser (park/release by tape at every channel operation)"}
}

func toolchainOf(prop string) string {
	if needsE5(prop) {
		return "go1.26.8 (testing/synctest) for the serialized interleavings and the race-detector pass"
	}
	return "go1.23.5 (the repository's toolchain)"
}

func assumptionsOf(prop string) []string {
	a := []string{
		"the mechanical instrumentation of the scratch copy preserves semantics except for map enumeration order (checked by `vsim selftest fidelity`: the repository's own suite passes inside the instrumented copy under native, reversed and random order)",
		"sampling: a clean batch is evidence, not proof; bounds are generator limits (depth <= 4, width <= 4, history <= 12 quick / 30 thorough)",
	}
	switch engineOf(prop) {
	case "E1-world":
		a = append(a, "the reference tree (harness/model) states what the property statement says; corners the statement leaves open are not observed (DESIGN.md Appendix A)")
	}
	return a
}

// expectedProbes lists, per property, the rare conditions a run of the check
// is expected to reach; one stuck at zero is reported in the evidence.
var expectedProbes = map[string][]string{
	"C12": {"set: write past the end pads with nils", "remove: shifted >= 1 later list element", "child: handle is a live view of a sub-tree", "setchild: caller keeps a live handle to the attached config", "set: primitive replaces a container"},
	"C01": {"merge: primitive over container", "merge: container over primitive", "merge: nil in B keeps container of A", "merge: prepend moved existing elements", "merge: append/prepend onto non-empty list", "merge: source and destination alias (self-merge)"},
	"C16": {"merge: per-field policy applied"},
	"C10": {"merge: *Config source re-observed after the merge"},
	"C15": {"remove: shifted an element that has a live handle", "merge: prepend moved existing elements", "diff: CompareConfigs evaluated"},
}

var ruleOfProp = map[string]string{}
