package main

import (
	"encoding/json"
	"fmt"
	"os"
	"strings"
)

// cmdReplay rebuilds from /repo's current tree and re-executes a replay file.
func cmdReplay(path string) int {
	bts, err := os.ReadFile(path)
	if err != nil {
		fmt.Fprintln(os.Stderr, "vsim:", err)
		return 2
	}
	var probe struct {
		Engine string `json:"engine"`
		Probe  string `json:"probe"`
	}
	json.Unmarshal(bts, &probe)
	var rf replayFile
	if err := json.Unmarshal(bts, &rf); err != nil {
		fmt.Fprintln(os.Stderr, "vsim: unreadable replay file:", err)
		return 2
	}
	b := prepare(rf.Property, false)
	if rf.Property == "C07" && strings.HasPrefix(rf.Phase, "lexer") {
		b, _ = b.buildE5only()
	}
	if needsE5(rf.Property) && probe.Engine != "probe" {
		ser, rc := b.buildE5()
		if strings.HasPrefix(rf.Phase, "free") {
			b = rc
		} else {
			b = ser
		}
	}
	if probe.Engine == "probe" {
		pr := b.runProbe(probe.Probe)
		if pr.Reproduces {
			fmt.Printf("probe %s still fails: %s\n", probe.Probe, pr.Detail)
			fmt.Printf("VIOLATION property=%s replay=%s\n", rf.Property, path)
			return 1
		}
		fmt.Printf("probe %s no longer fails on this tree\n", probe.Probe)
		return 0
	}
	want := rf.Violation.class()
	res := b.runSingle(rf.Property, rf.Tier, rf.Tape, true, rf.Avoid)
	if res.crashed {
		fmt.Printf("replay: the run kills the process:\n%s\n", res.output)
		if rf.Violation.Oracle == "worker-crash" {
			fmt.Printf("VIOLATION property=%s replay=%s\n", rf.Property, path)
			return 1
		}
		fmt.Printf("(recorded violation was %s)\nVIOLATION property=%s replay=%s\n", want, rf.Property, path)
		return 1
	}
	for _, l := range res.Trace {
		fmt.Println("  " + l)
	}
	if res.Violation == nil {
		fmt.Printf("replay: %s no longer reproduces on this tree\n", want)
		return 0
	}
	got := res.Violation.class()
	fmt.Printf("replay: %s at step %d: %s\n", got, res.Violation.Step, res.Violation.Message)
	if got != want || res.Violation.Step != rf.Violation.Step {
		fmt.Printf("replay: note: recorded violation was %s at step %d\n", want, rf.Violation.Step)
	}
	fmt.Printf("VIOLATION property=%s replay=%s\n", rf.Property, path)
	return 1
}
