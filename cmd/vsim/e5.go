package main

import (
	"fmt"
	"os"
	"time"
)

// E5 (C11) runs under go1.26.8 as a compiled test binary; filled in later.
func cmdCheckE5(prop, tier string, seed int64, workers int, kf *knownFile, start time.Time) int {
	fmt.Fprintln(os.Stderr, "vsim: E5 not built yet")
	return 2
}

func replayE5(path string, bts []byte) int {
	fmt.Fprintln(os.Stderr, "vsim: E5 not built yet")
	return 2
}

func selftestDeterminism(args []string) int {
	fmt.Fprintln(os.Stderr, "vsim: determinism selftest not built yet")
	return 2
}
