package main

import (
	"fmt"
	"sort"
	"time"
)

// cmdCheckE5 decides C11: serialized interleavings under testing/synctest
// (go1.26.8 test binary) and a free-running pass under the race detector.
func cmdCheckE5(prop, tier string, seed int64, workers int, kf *knownFile, start time.Time) int {
	b := prepare(prop, false)
	ser, rc := b.buildE5()
	tc := tierConfig(prop, tier)

	var avoid, knownHit, lines []string
	violations := 0
	for _, k := range kf.forProperty(prop) {
		pr := b.runProbe(k.Probe)
		switch {
		case k.Status == "known" && pr.Reproduces:
			lines = append(lines, fmt.Sprintf("KNOWN-FINDING: property=%s %s [%s]", prop, k.What, k.ID))
			knownHit = append(knownHit, k.ID)
			avoid = append(avoid, k.Avoid...)
		case k.Status == "fixed" && pr.Reproduces:
			path := writeProbeReplay(prop, k, pr, b)
			lines = append(lines, fmt.Sprintf("VIOLATION property=%s replay=%s", prop, path))
			fmt.Printf("regression of fixed finding %s: %s\n  %s\n", k.ID, k.What, pr.Detail)
			violations++
		}
	}
	sort.Strings(avoid)

	// serialized interleavings: 60% of the budget on all cores (one P per worker)
	tcs := tc
	tcs.budget = tc.budget * 6 / 10
	sr, v := ser.explore(prop, tier, seed, workers, tcs, avoid, kf, &lines, &knownHit)
	violations += v
	// free-running under the race detector: 4 processes with 4 Ps each
	tcr := tc
	tcr.budget = tc.budget * 4 / 10
	rw := workers / 4
	if rw < 1 {
		rw = 1
	}
	srr, v := rc.explore(prop, tier, seed, rw, tcr, avoid, kf, &lines, &knownHit)
	violations += v

	samples := ser.samples(prop, tier, seed, workers, avoid)
	// merge the two phases for the evidence
	merged := *sr
	merged.sums = append(append([]summary{}, sr.sums...), srr.sums...)
	merged.traces += srr.traces
	merged.states += srr.states
	merged.wall += srr.wall
	phases = map[string]interface{}{
		"serialized":          phaseInfo(sr),
		"free_running_race":   phaseInfo(srr),
		"uncontrolled_corner": "the interleaving of the free-running pass is not controlled by the simulator (DESIGN.md 4.3); its oracles are the race detector (no false positives) and equality with the solo results",
	}
	writeEvidence(prop, tier, seed, b, &merged, samples, avoid, knownHit, violations, time.Since(start).Seconds())
	phases = nil
	for _, l := range lines {
		fmt.Println(l)
	}
	fmt.Printf("vsim: %s %s seed=%d: %d serialized runs (%d distinct release sequences), %d free-running runs under -race, %d violation(s), %.1fs\n",
		prop, tier, seed, totalRuns(sr), sr.scheds, totalRuns(srr), violations, time.Since(start).Seconds())
	if violations > 0 {
		return 1
	}
	return 0
}

func totalRuns(sr *searchResult) int {
	n := 0
	for _, s := range sr.sums {
		n += s.Runs
	}
	return n
}

func phaseInfo(sr *searchResult) map[string]interface{} {
	return map[string]interface{}{"runs": totalRuns(sr), "distinct_traces": sr.traces, "distinct_schedules": sr.scheds, "wall_s": sr.wall}
}

// phases is extra evidence of multi-phase checks.
var phases map[string]interface{}
