package main

import (
	"bytes"
	"encoding/binary"
	"encoding/json"
	"fmt"
	"os"
	"os/exec"
	"path/filepath"
	"sort"
	"strings"
	"sync"
	"time"
)

type violation struct {
	Property string            `json:"property"`
	Oracle   string            `json:"oracle"`
	Op       string            `json:"op"`
	Step     int               `json:"step"`
	Message  string            `json:"message"`
	Detail   map[string]string `json:"detail,omitempty"`
}

func (v *violation) class() string { return v.Property + "/" + v.Oracle + "/" + v.Op }

type violationRec struct {
	Run       int        `json:"run"`
	Tape      []int      `json:"tape"`
	Violation *violation `json:"violation"`
}

type summary struct {
	Worker     int            `json:"worker"`
	Runs       int            `json:"runs"`
	FirstRun   int            `json:"first_run"`
	LastRun    int            `json:"last_run"`
	Nontrivial int            `json:"nontrivial"`
	Violations []violationRec `json:"violations"`
	Faults     map[string]int `json:"faults"`
	Probes     map[string]int `json:"probes"`
	Foreign    map[string]int `json:"foreign"`
	Logical    int64          `json:"logical_steps"`
	MaxOpSteps int64          `json:"max_op_steps"`
	StateOps   int64          `json:"state_ops"`
	WallS      float64        `json:"wall_s"`
}

type choice struct {
	Label string
	N     int
	V     int
}

type singleResult struct {
	Violation *violation     `json:"violation"`
	Tape      []int          `json:"tape"`
	Trace     []string       `json:"trace"`
	Choices   []choice       `json:"choices,omitempty"`
	Faults    map[string]int `json:"faults"`
	Probes    map[string]int `json:"probes"`
	Foreign   map[string]int `json:"foreign"`
	crashed   bool
	output    string
}

type tierCfg struct {
	budget  time.Duration
	maxRuns int
}

func tierConfig(prop, tier string) tierCfg {
	c := tierCfg{budget: 40 * time.Second, maxRuns: 1 << 30}
	if tier == "thorough" {
		c.budget = 420 * time.Second
	}
	if s := envInt("VERIF_BUDGET_S", 0); s > 0 {
		c.budget = time.Duration(s) * time.Second
	}
	if n := envInt("VERIF_MAXRUNS", 0); n > 0 {
		c.maxRuns = n
	}
	return c
}

// runSingle executes one tape in a fresh worker process.
func (b *build) runSingle(prop, tier string, tape []int, trace bool, avoid []string) *singleResult {
	f, err := os.CreateTemp(b.dir, "tape-*.json")
	if err != nil {
		infra("tape file: %v", err)
	}
	json.NewEncoder(f).Encode(tape)
	f.Close()
	defer os.Remove(f.Name())
	args := []string{"-prop", prop, "-tier", tier, "-tapefile", f.Name(), "-avoid", strings.Join(avoid, ",")}
	if trace {
		args = append(args, "-trace")
	}
	cmd := b.command(args...)
	cmd.Env = append(cmd.Env, "GOMAXPROCS=2", "GOTRACEBACK=single")
	var out, errb bytes.Buffer
	cmd.Stdout = &out
	cmd.Stderr = &errb
	done := make(chan error, 1)
	if err := cmd.Start(); err != nil {
		infra("cannot start worker: %v", err)
	}
	go func() { done <- cmd.Wait() }()
	select {
	case err = <-done:
	case <-time.After(120 * time.Second):
		cmd.Process.Kill()
		<-done
		infra("watchdog: a single run did not finish within 120 s (simulator hang, not a verdict)")
	}
	res := &singleResult{}
	if err != nil {
		if ee, ok := err.(*exec.ExitError); ok && ee.ExitCode() == 3 {
			infra("harness panic in single run:\n%s", errb.String())
		}
		res.crashed = true
		var rest []string
		for _, l := range strings.Split(errb.String(), "\n") {
			if strings.HasPrefix(l, "TRACE ") {
				res.Trace = append(res.Trace, strings.TrimPrefix(l, "TRACE "))
			} else {
				rest = append(rest, l)
			}
		}
		res.output = tail(strings.Join(rest, "\n"), 60)
		return res
	}
	if err := decodeFirst(out.Bytes(), res); err != nil {
		infra("cannot parse worker output: %v\n%s\n%s", err, out.String(), errb.String())
	}
	return res
}

// decodeFirst decodes the first JSON value in b (a test binary prints PASS after it).
func decodeFirst(b []byte, v interface{}) error {
	i := bytes.IndexByte(b, '{')
	if i < 0 {
		return fmt.Errorf("no JSON object in output")
	}
	return json.NewDecoder(bytes.NewReader(b[i:])).Decode(v)
}

func tail(s string, n int) string {
	lines := strings.Split(strings.TrimRight(s, "\n"), "\n")
	if len(lines) > n {
		lines = lines[:n]
	}
	return strings.Join(lines, "\n")
}

type searchResult struct {
	notes     []string
	sums      []summary
	crashes   []crashRec
	traces    int
	states    int
	scheds    int
	statesCap bool
	wall      float64
}

type crashRec struct {
	worker int
	run    int
	output string
}

func readSet(path string, into map[uint64]struct{}) {
	b, err := os.ReadFile(path)
	if err != nil {
		return
	}
	for i := 0; i+8 <= len(b); i += 8 {
		into[binary.LittleEndian.Uint64(b[i:])] = struct{}{}
	}
}

func (b *build) search(prop, tier string, seed int64, workers int, tc tierCfg, avoid []string) *searchResult {
	out := filepath.Join(b.dir, "out")
	os.MkdirAll(out, 0o755)
	start := time.Now()
	var wg sync.WaitGroup
	res := &searchResult{sums: make([]summary, workers)}
	var mu sync.Mutex
	perWorker := tc.maxRuns
	if tc.maxRuns < 1<<30 {
		perWorker = (tc.maxRuns + workers - 1) / workers
	}
	for w := 0; w < workers; w++ {
		wg.Add(1)
		go func(w int) {
			defer wg.Done()
			args := []string{"-prop", prop, "-tier", tier, "-seed", fmt.Sprint(seed), "-worker", fmt.Sprint(w), "-nworkers", fmt.Sprint(workers),
				"-budget", tc.budget.String(), "-maxruns", fmt.Sprint(perWorker), "-out", out, "-avoid", strings.Join(avoid, ",")}
			cmd := b.command(args...)
			cmd.Env = append(cmd.Env, b.searchEnv()...)
			var errb bytes.Buffer
			cmd.Stderr = &errb
			done := make(chan error, 1)
			if err := cmd.Start(); err != nil {
				infra("cannot start worker: %v", err)
			}
			go func() { done <- cmd.Wait() }()
			var err error
			select {
			case err = <-done:
			case <-time.After(tc.budget + 180*time.Second):
				cmd.Process.Kill()
				<-done
				// (the run the worker was in when it was killed: the one to look at)
				hung := -1
				if cb, e := os.ReadFile(filepath.Join(out, fmt.Sprintf("cur-%d", w))); e == nil && len(cb) >= 8 {
					hung = int(binary.LittleEndian.Uint64(cb))
				}
				mu.Lock()
				defer mu.Unlock()
				res.crashes = append(res.crashes, crashRec{worker: w, run: -1, output: fmt.Sprintf("watchdog (in run %d)", hung)})
				return
			}
			if err != nil {
				if ee, ok := err.(*exec.ExitError); ok && ee.ExitCode() == 3 {
					mu.Lock()
					res.crashes = append(res.crashes, crashRec{worker: w, run: -2, output: errb.String()})
					mu.Unlock()
					return
				}
				run := -1
				if cb, e := os.ReadFile(filepath.Join(out, fmt.Sprintf("cur-%d", w))); e == nil && len(cb) >= 8 {
					run = int(binary.LittleEndian.Uint64(cb))
				}
				mu.Lock()
				res.crashes = append(res.crashes, crashRec{worker: w, run: run, output: tail(errb.String(), 40)})
				mu.Unlock()
				return
			}
			sb, e := os.ReadFile(filepath.Join(out, fmt.Sprintf("summary-%d.json", w)))
			if e != nil {
				infra("worker %d wrote no summary: %v\n%s", w, e, errb.String())
			}
			var s summary
			if e := json.Unmarshal(sb, &s); e != nil {
				infra("worker %d summary unreadable: %v", w, e)
			}
			res.sums[w] = s
		}(w)
	}
	wg.Wait()
	res.wall = time.Since(start).Seconds()
	for _, c := range res.crashes {
		if c.run == -1 && strings.HasPrefix(c.output, "watchdog") {
			infra("%s: worker %d did not finish within its budget + 180 s (simulator hang, not a verdict); reproduce with: VERIF_SEED=%d vsim check %s --tier %s, or the single run through a replay file", c.output, c.worker, seed, prop, tier)
		}
		if c.run == -2 {
			infra("harness panic in worker %d:\n%s", c.worker, c.output)
		}
	}
	tr, st, sc := map[uint64]struct{}{}, map[uint64]struct{}{}, map[uint64]struct{}{}
	for w := 0; w < workers; w++ {
		readSet(filepath.Join(out, fmt.Sprintf("traces-%d.bin", w)), tr)
		readSet(filepath.Join(out, fmt.Sprintf("states-%d.bin", w)), st)
		readSet(filepath.Join(out, fmt.Sprintf("scheds-%d.bin", w)), sc)
	}
	res.traces, res.states, res.scheds = len(tr), len(st), len(sc)
	return res
}

// shrink minimises a failing tape while the same violation class persists.
func (b *build) shrink(prop, tier string, tape []int, class string, avoid []string) ([]int, int) {
	tries := 0
	maxTries := 600
	deadline := time.Now().Add(90 * time.Second)
	if b.raceMode {
		// a race report reproduces with high but not full probability and every candidate costs
		// a process under the race detector: minimise briefly
		maxTries = 40
		deadline = time.Now().Add(30 * time.Second)
	}
	test := func(t []int) bool {
		if tries >= maxTries || time.Now().After(deadline) {
			return false
		}
		tries++
		r := b.runSingle(prop, tier, t, false, avoid)
		if r.crashed {
			return class == prop+"/worker-crash/run"
		}
		return r.Violation != nil && r.Violation.class() == class
	}
	cur := append([]int{}, tape...)
	// the used tape may be shorter than what was recorded
	for improved := true; improved; {
		improved = false
		// truncate (binary search for the shortest failing prefix)
		lo, hi := 0, len(cur)
		for lo < hi {
			mid := (lo + hi) / 2
			if test(cur[:mid]) {
				hi = mid
			} else {
				lo = mid + 1
			}
		}
		if hi < len(cur) && test(cur[:hi]) {
			cur = append([]int{}, cur[:hi]...)
			improved = true
		}
		// delete blocks
		for size := 16; size >= 1; size /= 2 {
			for i := 0; i+size <= len(cur); {
				cand := append(append([]int{}, cur[:i]...), cur[i+size:]...)
				if test(cand) {
					cur = cand
					improved = true
				} else {
					i += size
				}
			}
		}
		// zero, then lower entries
		for i := range cur {
			if cur[i] == 0 {
				continue
			}
			cand := append([]int{}, cur...)
			cand[i] = 0
			if test(cand) {
				cur = cand
				improved = true
				continue
			}
			lo, hi := 1, cur[i]
			for lo < hi {
				mid := (lo + hi) / 2
				cand[i] = mid
				if test(cand) {
					hi = mid
				} else {
					lo = mid + 1
				}
			}
			if hi < cur[i] {
				cand[i] = hi
				if test(cand) {
					cur = append([]int{}, cand...)
					improved = true
				}
			}
		}
		if tries >= maxTries || time.Now().After(deadline) {
			break
		}
	}
	// drop trailing zeros (the tape is extended with zeros anyway)
	for len(cur) > 0 && cur[len(cur)-1] == 0 {
		cur = cur[:len(cur)-1]
	}
	return cur, tries
}

type replayFile struct {
	Property  string     `json:"property"`
	Engine    string     `json:"engine"`
	VerifSeed int64      `json:"verif_seed"`
	Run       int        `json:"run"`
	Tier      string     `json:"tier"`
	Tape      []int      `json:"tape"`
	Avoid     []string   `json:"avoid"`
	Violation *violation `json:"violation"`
	Trace     []string   `json:"trace"`
	Choices   []string   `json:"choices,omitempty"`
	Crash     string     `json:"crash_output,omitempty"`
	Tree      struct {
		Head  string `json:"head"`
		Dirty string `json:"dirty_sha"`
	} `json:"tree"`
	Phase        string `json:"phase,omitempty"`
	ShrinkTries  int    `json:"shrink_candidates"`
	OriginalTape int    `json:"original_tape_len"`
}

func cmdCheck(prop, tier string) int {
	start := time.Now()
	seed := int64(envInt("VERIF_SEED", 1))
	workers := envInt("VERIF_WORKERS", 16)
	kf := loadKnown()
	if !claimed(prop) {
		fmt.Fprintf(os.Stderr, "vsim: property %s is not decided by this framework\n", prop)
		return 2
	}
	if needsE5(prop) {
		return cmdCheckE5(prop, tier, seed, workers, kf, start)
	}
	b := prepare(prop, false)
	tc := tierConfig(prop, tier)

	// known findings: probes first
	var avoid []string
	var knownHit []string
	violations := 0
	var lines []string
	for _, k := range kf.forProperty(prop) {
		pr := b.runProbe(k.Probe)
		switch {
		case k.Status == "known" && pr.Reproduces:
			lines = append(lines, fmt.Sprintf("KNOWN-FINDING: property=%s %s [%s]", prop, k.What, k.ID))
			knownHit = append(knownHit, k.ID)
			avoid = append(avoid, k.Avoid...)
		case k.Status == "fixed" && pr.Reproduces:
			path := writeProbeReplay(prop, k, pr, b)
			lines = append(lines, fmt.Sprintf("VIOLATION property=%s replay=%s", prop, path))
			fmt.Printf("regression of fixed finding %s: %s\n  %s\n", k.ID, k.What, pr.Detail)
			violations++
		}
	}
	// generator constraints of findings recorded under other properties whose
	// defect would otherwise be tripped over by this property's workload
	for _, k := range kf.Findings {
		if k.Status == "known" && k.Property != prop {
			for _, p := range k.AlsoAvoidIn {
				if p == prop {
					if pr := b.runProbe(k.Probe); pr.Reproduces {
						avoid = append(avoid, k.Avoid...)
					}
				}
			}
		}
	}
	sort.Strings(avoid)

	sr, v := b.explore(prop, tier, seed, workers, tc, avoid, kf, &lines, &knownHit)
	violations += v

	if prop == "C07" {
		// second phase: lexer/parser schedules under testing/synctest (go1.26.8 test binary)
		ser, _ := b.buildE5only()
		ser.phase = "lexer schedules (serialized)"
		tcl := tc
		tcl.budget = tc.budget / 2
		srl, v := ser.explore(prop, tier, seed, workers, tcl, avoid, kf, &lines, &knownHit)
		violations += v
		phases = map[string]interface{}{"hostile_arguments": phaseInfo(sr), "lexer_schedules": phaseInfo(srl)}
		merged := *sr
		merged.sums = append(append([]summary{}, sr.sums...), srl.sums...)
		merged.traces += srl.traces
		merged.states += srl.states
		merged.scheds += srl.scheds
		merged.wall += srl.wall
		sr = &merged
	}
	samples := b.samples(prop, tier, seed, workers, avoid)
	writeEvidence(prop, tier, seed, b, sr, samples, avoid, knownHit, violations, time.Since(start).Seconds())
	phases = nil
	for _, l := range lines {
		fmt.Println(l)
	}
	total := 0
	for _, s := range sr.sums {
		total += s.Runs
	}
	fmt.Printf("vsim: %s %s seed=%d: %d runs, %d distinct non-trivial traces, %d violation(s), %.1fs\n", prop, tier, seed, total, sr.traces, violations, time.Since(start).Seconds())
	if violations > 0 {
		return 1
	}
	return 0
}

// explore runs the seeded search with this build's worker, confirms, minimises
// and classifies what it finds.
func (b *build) explore(prop, tier string, seed int64, workers int, tc tierCfg, avoid []string, kf *knownFile, linesp *[]string, knownHitp *[]string) (*searchResult, int) {
	lines, knownHit := *linesp, *knownHitp
	violations := 0
	sr := b.search(prop, tier, seed, workers, tc, avoid)

	// collect candidate violations, one per class, smallest run first
	byClass := map[string]violationRec{}
	for _, s := range sr.sums {
		for _, v := range s.Violations {
			c := v.Violation.class()
			if old, ok := byClass[c]; !ok || v.Run < old.Run {
				byClass[c] = v
			}
		}
	}
	var classes []string
	for c := range byClass {
		classes = append(classes, c)
	}
	sort.Strings(classes)
	if len(classes) > 4 {
		classes = classes[:4]
	}

	if len(sr.crashes) > 2 {
		sort.Slice(sr.crashes, func(i, j int) bool { return sr.crashes[i].run < sr.crashes[j].run })
		sr.crashes = sr.crashes[:2]
	}
	for _, c := range sr.crashes {
		// a worker died: re-execute the run it was in, alone, recording the tape
		path, ok := b.handleCrash(prop, tier, seed, c, avoid)
		if !ok {
			// Not the run alone. The worker's whole sequence of runs up to that one is a pure
			// function of the seed as well: if the same process history does not die either,
			// the death had a cause outside the simulation (and outside the inputs) - it is
			// reported, it is not a verdict, and nothing can be replayed from it.
			if c.run >= 0 && b.rerunSequence(prop, tier, seed, workers, c, avoid) {
				note := fmt.Sprintf("NOTE: worker %d died once in run %d; neither that run alone nor the worker's sequence of runs up to it dies when executed again (same seed): cause outside the simulation, not a verdict. Output of the dead worker:\n%s", c.worker, c.run, tail(c.output, 12))
				fmt.Println(note)
				sr.notes = append(sr.notes, note)
				continue
			}
			infra("worker %d died in run %d; the run does not crash when re-executed alone but the worker's sequence of runs up to it does: a crash that depends on process history cannot be minimised to a replay file:\n%s", c.worker, c.run, c.output)
		}
		lines = append(lines, fmt.Sprintf("VIOLATION property=%s replay=%s", prop, path))
		violations++
	}

	for _, c := range classes {
		v := byClass[c]
		conf := b.runSingle(prop, tier, v.Tape, false, avoid)
		if conf.crashed || conf.Violation == nil || conf.Violation.class() != c {
			infra("candidate violation %s of run %d did not reproduce from its tape in a fresh process (nondeterminism in the simulator)", c, v.Run)
		}
		min, tries := b.shrink(prop, tier, v.Tape, c, avoid)
		fin := b.runSingle(prop, tier, min, true, avoid)
		if fin.crashed || fin.Violation == nil || fin.Violation.class() != c {
			// fall back to the unshrunk tape
			min = v.Tape
			fin = b.runSingle(prop, tier, min, true, avoid)
			if fin.Violation == nil {
				infra("minimised tape of %s stopped reproducing", c)
			}
		}
		// known finding?
		if k := kf.match(prop, fin); k != nil {
			l := fmt.Sprintf("KNOWN-FINDING: property=%s %s [%s]", prop, k.What, k.ID)
			dup := false
			for _, x := range lines {
				if x == l {
					dup = true
				}
			}
			if !dup {
				lines = append(lines, l)
				knownHit = append(knownHit, k.ID)
			}
			continue
		}
		rf := replayFile{Property: prop, Engine: engineOf(prop), VerifSeed: seed, Run: v.Run, Tier: tier, Tape: fin.Tape, Avoid: avoid,
			Violation: fin.Violation, Trace: fin.Trace, ShrinkTries: tries, OriginalTape: len(v.Tape), Phase: b.phase}
		for _, ch := range fin.Choices {
			rf.Choices = append(rf.Choices, fmt.Sprintf("%s: %d/%d", ch.Label, ch.V, ch.N))
		}
		rf.Tree.Head, rf.Tree.Dirty = b.head, b.dirty
		path := filepath.Join(verifDir, "replays", fmt.Sprintf("%s-%s-seed%d-run%d.json", prop, sanitize(fin.Violation.Oracle+"-"+fin.Violation.Op), seed, v.Run))
		writeJSON(path, rf)
		fmt.Printf("violation %s (run %d, step %d): %s\n", c, v.Run, fin.Violation.Step, fin.Violation.Message)
		for _, t := range fin.Trace {
			fmt.Println("    " + t)
		}
		lines = append(lines, fmt.Sprintf("VIOLATION property=%s replay=%s", prop, path))
		violations++
	}

	*linesp, *knownHitp = lines, knownHit
	return sr, violations
}

func sanitize(s string) string {
	var b strings.Builder
	for _, r := range s {
		if (r >= 'a' && r <= 'z') || (r >= 'A' && r <= 'Z') || (r >= '0' && r <= '9') || r == '-' {
			b.WriteRune(r)
		} else {
			b.WriteRune('_')
		}
	}
	return b.String()
}

func writeJSON(path string, v interface{}) {
	os.MkdirAll(filepath.Dir(path), 0o755)
	b, err := json.MarshalIndent(v, "", " ")
	if err != nil {
		infra("marshal %s: %v", path, err)
	}
	if err := os.WriteFile(path, append(b, '\n'), 0o644); err != nil {
		infra("write %s: %v", path, err)
	}
}

// samples re-executes the first runs of the search with tracing on, so that
// the evidence shows what the explored cases look like.
func (b *build) samples(prop, tier string, seed int64, workers int, avoid []string) []interface{} {
	var out []interface{}
	for run := 0; run < 3; run++ {
		cmd := b.command("-prop", prop, "-tier", tier, "-seed", fmt.Sprint(seed), "-worker", fmt.Sprint(run), "-nworkers", "1000000",
			"-maxruns", "1", "-out", filepath.Join(b.dir, "out"), "-avoid", strings.Join(avoid, ","), "-sample")
		cmd.Env = append(cmd.Env, "GOMAXPROCS=1")
		ob, err := cmd.Output()
		if err != nil {
			continue
		}
		var sr singleResult
		if decodeFirst(ob, &sr) == nil {
			out = append(out, map[string]interface{}{"run": run, "tape_len": len(sr.Tape), "trace": sr.Trace})
		}
	}
	return out
}

// handleCrash re-executes a run that killed its worker.
// rerunSequence executes the runs worker c.worker had executed when it died (indices c.worker,
// c.worker+workers, ... c.run) again in one fresh process. true = it got through them.
func (b *build) rerunSequence(prop, tier string, seed int64, workers int, c crashRec, avoid []string) bool {
	n := (c.run-c.worker)/workers + 1
	out := filepath.Join(b.dir, "out-rerun")
	os.MkdirAll(out, 0o755)
	cmd := b.command("-prop", prop, "-tier", tier, "-seed", fmt.Sprint(seed), "-worker", fmt.Sprint(c.worker), "-nworkers", fmt.Sprint(workers),
		"-budget", "3h", "-maxruns", fmt.Sprint(n), "-out", out, "-avoid", strings.Join(avoid, ","))
	cmd.Env = append(cmd.Env, b.searchEnv()...)
	done := make(chan error, 1)
	if err := cmd.Start(); err != nil {
		return false
	}
	go func() { done <- cmd.Wait() }()
	select {
	case err := <-done:
		return err == nil
	case <-time.After(40 * time.Minute):
		cmd.Process.Kill()
		<-done
		return false
	}
}

func (b *build) handleCrash(prop, tier string, seed int64, c crashRec, avoid []string) (string, bool) {
	if c.run < 0 {
		return "", false
	}
	logf := filepath.Join(b.dir, fmt.Sprintf("crashtape-%d", c.run))
	cmd := b.command("-prop", prop, "-tier", tier, "-seed", fmt.Sprint(seed), "-worker", fmt.Sprint(c.run), "-nworkers", "1000000",
		"-maxruns", "1", "-out", filepath.Join(b.dir, "out"), "-avoid", strings.Join(avoid, ","), "-sample", "-tapelog", logf)
	cmd.Env = append(cmd.Env, b.searchEnv()...)
	var errb bytes.Buffer
	cmd.Stderr = &errb
	err := cmd.Run()
	if err == nil {
		return "", false
	}
	// read the tape that was logged draw by draw
	var tape []int
	if lb, e := os.ReadFile(logf); e == nil {
		for i := 0; i+4 <= len(lb); i += 4 {
			tape = append(tape, int(binary.LittleEndian.Uint32(lb[i:])))
		}
	}
	// confirm from the tape, shrink while it keeps crashing
	conf := b.runSingle(prop, tier, tape, false, avoid)
	if !conf.crashed {
		return "", false
	}
	class := prop + "/worker-crash/run"
	min, tries := b.shrink(prop, tier, tape, class, avoid)
	fin := b.runSingle(prop, tier, min, true, avoid)
	if !fin.crashed {
		min = tape
		fin = b.runSingle(prop, tier, min, true, avoid)
	}
	rf := replayFile{Property: prop, Engine: engineOf(prop), VerifSeed: seed, Run: c.run, Tier: tier, Tape: min, Avoid: avoid,
		Violation: &violation{Property: prop, Oracle: "worker-crash", Op: "run", Message: "the process executing this run died on a fatal runtime error"},
		Crash:     fin.output, Trace: fin.Trace, ShrinkTries: tries, OriginalTape: len(tape), Phase: b.phase}
	rf.Tree.Head, rf.Tree.Dirty = b.head, b.dirty
	path := filepath.Join(verifDir, "replays", fmt.Sprintf("%s-worker-crash-seed%d-run%d.json", prop, seed, c.run))
	writeJSON(path, rf)
	fmt.Printf("violation %s: run %d kills the process:\n%s\n", class, c.run, tail(fin.output, 12))
	for _, t := range fin.Trace {
		fmt.Println("    " + t)
	}
	return path, true
}
