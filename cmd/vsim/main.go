// Command vsim is the driver of the go-ucfg simulation checks: it snapshots
// /repo's working tree, instruments the copy, builds the harness against it,
// runs the seeded search on all cores, minimises and confirms violations,
// applies the known-findings file and writes the evidence.
//
//	vsim check <property> [--tier quick|thorough]
//	vsim replay <replay-file>
//	vsim selftest fidelity|determinism
//
// Exit status: 0 property held on everything explored; 1 at least one
// VIOLATION line; 2 infrastructure trouble (never a verdict).
package main

import (
	"fmt"
	"os"
	"strings"
)

func usage() {
	fmt.Fprintln(os.Stderr, "usage: vsim check <id> [--tier quick|thorough] | vsim replay <file> | vsim selftest <name> | vsim build")
	os.Exit(2)
}

func main() {
	if len(os.Args) < 2 {
		usage()
	}
	defer func() {
		if p := recover(); p != nil {
			if ie, ok := p.(infraError); ok {
				fmt.Fprintln(os.Stderr, "vsim: infrastructure error:", string(ie))
				cleanupAll()
				os.Exit(2)
			}
			panic(p)
		}
	}()
	switch os.Args[1] {
	case "check":
		if len(os.Args) < 3 {
			usage()
		}
		id := os.Args[2]
		tier := os.Getenv("VERIF_TIER")
		for i := 3; i < len(os.Args); i++ {
			if os.Args[i] == "--tier" && i+1 < len(os.Args) {
				tier = os.Args[i+1]
				i++
			} else if strings.HasPrefix(os.Args[i], "--tier=") {
				tier = strings.TrimPrefix(os.Args[i], "--tier=")
			}
		}
		if tier == "" {
			tier = "quick"
		}
		if tier != "quick" && tier != "thorough" {
			usage()
		}
		code := cmdCheck(id, tier)
		cleanupAll()
		os.Exit(code)
	case "replay":
		if len(os.Args) < 3 {
			usage()
		}
		code := cmdReplay(os.Args[2])
		cleanupAll()
		os.Exit(code)
	case "selftest":
		if len(os.Args) < 3 {
			usage()
		}
		code := cmdSelftest(os.Args[2], os.Args[3:])
		cleanupAll()
		os.Exit(code)
	case "probes":
		b := prepare("C12", false)
		for _, id := range []string{"O1", "O2", "O3", "O4", "O6", "O7", "O8", "O9", "O10", "O11", "O12", "O13", "O16", "O17", "O18", "O19", "O20", "O21", "O22", "O23", "O24", "O25", "O26", "O27", "O28", "O29", "O30", "O31", "O32", "O33", "O34", "O35", "O36", "O37", "O38", "O39", "O40", "O41", "O42", "O43", "O44", "O45", "O46", "O47", "O48", "O49", "O50", "O51", "O52", "O53", "O54", "O55", "O56", "O57", "O58", "O59", "O60", "O61", "O62", "O63", "O64", "O65", "O66", "O67", "O68", "O69", "O70", "O71", "O72", "O73", "O74", "O75", "O76", "O77", "O78", "O79", "O80", "O81", "O82", "O83", "O84", "O85", "O86", "O87", "O88", "O89", "O90", "O91"} {
			pr := b.runProbe(id)
			fmt.Printf("%-4s reproduces=%-5v %s\n", id, pr.Reproduces, pr.Detail)
		}
		cleanupAll()
	case "build":
		b := prepare("C12", true)
		fmt.Println(b.dir)
	default:
		usage()
	}
}
