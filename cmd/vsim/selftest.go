package main

import (
	"crypto/sha256"
	"encoding/hex"
	"fmt"
	"os"
	"path/filepath"
	"strings"
	"sync"
	"time"
)

func cmdSelftest(name string, args []string) int {
	switch name {
	case "fidelity":
		return selftestFidelity()
	case "determinism":
		return selftestDeterminism(args)
	}
	fmt.Fprintln(os.Stderr, "vsim: unknown selftest", name)
	return 2
}

// selftestFidelity runs the repository's own test suite inside the
// instrumented copy with inert hooks: it must pass as it does on /repo.
func selftestFidelity() int {
	b := prepare("C12", false)
	start := time.Now()
	out, err := run(b.repo, goEnv(), "go", "test", "-vet=off", "-count=1", "./...")
	fmt.Print(out)
	if err != nil {
		fmt.Println("fidelity: the repository's suite FAILS inside the instrumented copy")
		return 1
	}
	fmt.Printf("fidelity: the repository's suite passes inside the instrumented copy (%v); sites rewritten: %v\n", time.Since(start).Round(time.Millisecond), b.report.Sites)
	return 0
}

// selftestDeterminism: the same (VERIF_SEED, run range) executed by many
// processes under GOMAXPROCS 1, 4 and 16 must give identical per-run logs
// (tape hash, schedule hash, state hashes, verdict). Usage:
//
//	vsim selftest determinism [props...]     (default: all engines)
func selftestDeterminism(args []string) int {
	props := args
	if len(props) == 0 {
		props = []string{"C12", "C01", "C15", "C02", "C09", "C13", "C19", "C11", "C07"}
	}
	b := prepare("C12", false)
	var ser *build
	bad := 0
	for _, prop := range props {
		if engineOf(prop) == "" {
			continue
		}
		wb := b
		runs := "300"
		if needsE5(prop) {
			if ser == nil {
				ser, _ = b.buildE5()
			}
			wb = ser
			runs = "300"
		}
		type res struct {
			sum  string
			desc string
		}
		var mu sync.Mutex
		var results []res
		var wg sync.WaitGroup
		sem := make(chan struct{}, 16)
		for _, procs := range []string{"1", "4", "16"} {
			for rep := 0; rep < 10; rep++ {
				wg.Add(1)
				go func(procs string, rep int) {
					defer wg.Done()
					sem <- struct{}{}
					defer func() { <-sem }()
					out := filepath.Join(b.dir, fmt.Sprintf("det-%s-%s-%d", prop, procs, rep))
					os.MkdirAll(out, 0o755)
					logf := filepath.Join(out, "runlog")
					cmd := wb.command("-prop", prop, "-tier", "quick", "-seed", "7", "-worker", "0", "-nworkers", "1", "-maxruns", runs, "-budget", "10m", "-out", out, "-avoid", "-", "-runlog", logf)
					cmd.Env = append(cmd.Env, "GOMAXPROCS="+procs)
					if o, err := cmd.CombinedOutput(); err != nil {
						mu.Lock()
						results = append(results, res{"ERROR", fmt.Sprintf("GOMAXPROCS=%s rep=%d: %v %s", procs, rep, err, tail(string(o), 5))})
						mu.Unlock()
						return
					}
					lb, _ := os.ReadFile(logf)
					h := sha256.Sum256(lb)
					mu.Lock()
					results = append(results, res{hex.EncodeToString(h[:8]) + fmt.Sprintf(" (%d lines)", strings.Count(string(lb), "\n")), fmt.Sprintf("GOMAXPROCS=%s rep=%d", procs, rep)})
					mu.Unlock()
				}(procs, rep)
			}
		}
		wg.Wait()
		distinct := map[string][]string{}
		for _, r := range results {
			distinct[r.sum] = append(distinct[r.sum], r.desc)
		}
		if len(distinct) == 1 {
			for k := range distinct {
				fmt.Printf("determinism %s: %d processes (GOMAXPROCS 1/4/16 x 10), %s runs each: identical run logs %s\n", prop, len(results), runs, k)
			}
		} else {
			bad++
			fmt.Printf("determinism %s: DIVERGENCE: %d different run logs\n", prop, len(distinct))
			for k, v := range distinct {
				fmt.Printf("   %s: %v\n", k, v)
			}
		}
	}
	// harness source scan for uncontrolled nondeterminism
	out, _ := run(verifDir, os.Environ(), "grep", "-rnE", `\.Range\(|time\.Now\(|math/rand|rand\.(Int|Float|Perm|Shuffle)`, "harness", "--include=*.go")
	fmt.Printf("harness scan for .Range( / time.Now( / math/rand (allow-list: sim/run.go wall-clock backstop, workerlib budget timer):\n%s", out)
	if bad > 0 {
		return 1
	}
	return 0
}
