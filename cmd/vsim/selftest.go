package main

import (
	"fmt"
	"os"
	"time"
)

func cmdSelftest(name string, args []string) int {
	switch name {
	case "fidelity":
		return selftestFidelity()
	case "determinism":
		return selftestDeterminism(args)
	}
	fmt.Fprintln(os.Stderr, "vsim: unknown selftest", name)
	return 2
}

// selftestFidelity runs the repository's own test suite inside the
// instrumented copy with inert hooks: it must pass as it does on /repo.
func selftestFidelity() int {
	b := prepare("C12", false)
	start := time.Now()
	out, err := run(b.repo, goEnv(), "go", "test", "-vet=off", "-count=1", "./...")
	fmt.Print(out)
	if err != nil {
		fmt.Println("fidelity: the repository's suite FAILS inside the instrumented copy")
		return 1
	}
	fmt.Printf("fidelity: the repository's suite passes inside the instrumented copy (%v); sites rewritten: %v\n", time.Since(start).Round(time.Millisecond), b.report.Sites)
	return 0
}
