package main

import (
	"bytes"
	"crypto/sha256"
	"encoding/hex"
	"fmt"
	"os"
	"os/exec"
	"path/filepath"
	"strconv"
	"strings"
	"time"

	"verif/instr"
)

type infraError string

func infra(format string, a ...interface{}) {
	panic(infraError(fmt.Sprintf(format, a...)))
}

// repoDir is the repository the checks rebuild from; VSIM_REPO overrides it
// for background sweeps that must not see temporary edits of /repo. verifDir
// is where evidence and replay files go (the working directory's root when
// run from a snapshot).
var (
	repoDir  = envOr("VSIM_REPO", "/repo")
	verifDir = envOr("VSIM_VERIF", "/verif")
)

func envOr(name, def string) string {
	if v := os.Getenv(name); v != "" {
		return v
	}
	return def
}

var scratchDirs []string

func cleanupAll() {
	if os.Getenv("VSIM_KEEP") != "" {
		return
	}
	for _, d := range scratchDirs {
		os.RemoveAll(d)
	}
	scratchDirs = nil
}

func goEnv() []string {
	env := os.Environ()
	env = append(env, "GOFLAGS=-mod=mod", "GOPROXY=off", "GOSUMDB=off", "GOTOOLCHAIN=local", "CGO_ENABLED=0")
	return env
}

func run(dir string, env []string, name string, args ...string) (string, error) {
	cmd := exec.Command(name, args...)
	cmd.Dir = dir
	cmd.Env = env
	var out bytes.Buffer
	cmd.Stdout = &out
	cmd.Stderr = &out
	err := cmd.Run()
	return out.String(), err
}

// build is an instrumented scratch copy with a compiled worker.
type build struct {
	dir     string // scratch root
	repo    string // instrumented copy
	harness string
	worker  string // worker binary
	report  *instr.Report
	head    string
	dirty   string
	buildS  float64
	// E5: the worker is a go1.26.8 test binary; the protocol's arguments travel in VSIM_ARGS
	testBin  string
	raceMode bool
	phase    string
}

// command builds the invocation of this build's worker for the given protocol arguments.
func (b *build) command(args ...string) *exec.Cmd {
	if b.testBin == "" {
		return b.plainCommand(args...)
	}
	cmd := exec.Command(b.testBin, "-test.run", "^TestWorker$", "-test.timeout", "0")
	cmd.Env = append(os.Environ(), "VSIM_ARGS="+strings.Join(args, "\x1f"))
	if b.raceMode {
		cmd.Env = append(cmd.Env, "VSIM_E5_MODE=race", "GORACE=halt_on_error=1 exitcode=66")
	}
	return cmd
}

func (b *build) plainCommand(args ...string) *exec.Cmd {
	cmd := exec.Command(b.worker, args...)
	cmd.Env = os.Environ()
	return cmd
}

// searchEnv is the environment of the parallel search workers.
func (b *build) searchEnv() []string {
	if b.raceMode {
		return []string{"GOMAXPROCS=4", "GOTRACEBACK=single"} // truly parallel readers
	}
	return []string{"GOMAXPROCS=1", "GOTRACEBACK=single"}
}

// buildE5only compiles only the serialized synctest worker.
func (b *build) buildE5only() (*build, error) {
	start := time.Now()
	ser := *b
	ser.testBin = filepath.Join(b.dir, "worker5")
	ser.phase = "serialized"
	if out, err := run(b.harness, goEnv(), "go1.26.8", "test", "-c", "-o", ser.testBin, "./conc"); err != nil {
		infra("E5 build failed: %v\n%s", err, out)
	}
	b.buildS += time.Since(start).Seconds()
	ser.buildS = b.buildS
	return &ser, nil
}

// buildE5 compiles the synctest worker (and its -race variant) with go1.26.8.
func (b *build) buildE5() (*build, *build) {
	start := time.Now()
	ser := *b
	ser.testBin = filepath.Join(b.dir, "worker5")
	ser.phase = "serialized"
	env := goEnv()
	if out, err := run(b.harness, env, "go1.26.8", "test", "-c", "-o", ser.testBin, "./conc"); err != nil {
		infra("E5 build failed: %v\n%s", err, out)
	}
	rc := *b
	rc.testBin = filepath.Join(b.dir, "worker5race")
	rc.raceMode = true
	rc.phase = "free-running (-race)"
	renv := append(os.Environ(), "GOFLAGS=-mod=mod", "GOPROXY=off", "GOSUMDB=off", "GOTOOLCHAIN=local", "CGO_ENABLED=1")
	if out, err := run(b.harness, renv, "go1.26.8", "test", "-race", "-c", "-o", rc.testBin, "./conc"); err != nil {
		infra("E5 race build failed: %v\n%s", err, out)
	}
	b.buildS += time.Since(start).Seconds()
	ser.buildS, rc.buildS = b.buildS, b.buildS
	return &ser, &rc
}

func gitInfo() (string, string) {
	head, _ := run(repoDir, os.Environ(), "git", "rev-parse", "HEAD")
	diff, _ := run(repoDir, os.Environ(), "git", "diff", "HEAD")
	sum := sha256.Sum256([]byte(diff))
	d := ""
	if strings.TrimSpace(diff) != "" {
		d = hex.EncodeToString(sum[:8])
	}
	return strings.TrimSpace(head), d
}

// needsE5 tells which properties are decided by the synctest engine (go1.26.8 test binary).
func needsE5(prop string) bool { return prop == "C11" }

// prepare snapshots, instruments and builds. keep=true leaves the directory for inspection.
func prepare(prop string, keep bool) *build {
	start := time.Now()
	dir, err := os.MkdirTemp("", "vsim-")
	if err != nil {
		infra("mktemp: %v", err)
	}
	if !keep {
		scratchDirs = append(scratchDirs, dir)
	}
	b := &build{dir: dir, repo: filepath.Join(dir, "repo"), harness: filepath.Join(dir, "harness")}
	b.head, b.dirty = gitInfo()
	if out, err := run("/", os.Environ(), "rsync", "-a", "--exclude", ".git", repoDir+"/", b.repo+"/"); err != nil {
		infra("snapshot of %s failed: %v\n%s", repoDir, err, out)
	}
	rep, err := instr.Run(b.repo)
	if err != nil {
		infra("instrumentation failed: %v", err)
	}
	b.report = rep
	for _, r := range []string{"R1", "R2", "R3", "R4"} {
		if rep.Sites[r] == 0 {
			infra("instrumentation rule %s rewrote no site", r)
		}
	}
	if out, err := run("/", os.Environ(), "rsync", "-a", "--exclude", "*.test", verifDir+"/harness/", b.harness+"/"); err != nil {
		infra("copy of harness failed: %v\n%s", err, out)
	}
	sum, err := os.ReadFile(filepath.Join(repoDir, "go.sum"))
	if err == nil {
		os.WriteFile(filepath.Join(b.harness, "go.sum"), sum, 0o644)
	}
	b.worker = filepath.Join(dir, "worker")
	if out, err := run(b.harness, goEnv(), "go", "build", "-o", b.worker, "./cmd/worker"); err != nil {
		infra("harness build failed (the tree under %s may not compile): %v\n%s", repoDir, err, out)
	}
	b.buildS = time.Since(start).Seconds()
	return b
}

func envInt(name string, def int) int {
	if s := os.Getenv(name); s != "" {
		if n, err := strconv.Atoi(s); err == nil {
			return n
		}
	}
	return def
}
